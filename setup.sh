#!/bin/sh
# Offline setup: nothing to build or install (pure Python, only /venv's packages are used).
# Self-test of the reference models (the trusted base) against published vectors.
HERE="$(cd "$(dirname "$0")" && pwd)"
cd "$HERE" || exit 2
PY="${VERIF_PYTHON:-/venv/bin/python}"
PYTHONPATH="$HERE" PYTHONDONTWRITEBYTECODE=1 exec "$PY" -B -m vf.ref.selftest
