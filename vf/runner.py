"""Run a property check: plan shards, run them in fresh interpreters, aggregate,
classify violations against KNOWN_FINDINGS.txt, write evidence, set exit code.

exit 0  property held on everything observed and the deciding monitors ran
exit 1  an oracle fired for something KNOWN_FINDINGS.txt does not list
        (prints ``VIOLATION property=<id> replay=<path>``)
exit 2  inconclusive (watchdog, import problem, deciding monitor never reached)
"""
from __future__ import annotations

import argparse
import array
import hashlib
import importlib
import json
import os
import re
import shutil
import subprocess
import sys
import time

from vf import env
from vf.ctx import Ctx, unjson

KNOWN_FILE = os.path.join(env.ROOT, "KNOWN_FINDINGS.txt")


def load_known() -> dict[str, dict[str, str]]:
    """property -> {signature -> description} for *open* findings only."""
    known: dict[str, dict[str, str]] = {}
    if not os.path.exists(KNOWN_FILE):
        return known
    with open(KNOWN_FILE) as fh:
        for line in fh:
            line = line.strip()
            m = re.match(r"known:\s+property=(\S+)\s+key=(\S+)\s*(.*)", line)
            if m:
                known.setdefault(m.group(1), {})[m.group(2)] = m.group(3)
    return known


def anchored_files(prop: str) -> list[str]:
    """The files properties.jsonl anchors the property in."""
    try:
        with open(os.path.join(env.ROOT, "properties.jsonl")) as fh:
            for line in fh:
                d = json.loads(line)
                if d.get("id") == prop:
                    return list((d.get("anchors") or {}).get("files") or [])
    except (OSError, ValueError):
        pass
    return []


def _run_shards(prop: str, jobs: list[dict], tmp: str, max_procs: int, timeout_s: float):
    """Run worker processes, at most max_procs at a time. Returns (results, problems)."""
    pending = list(enumerate(jobs))
    running: dict[int, tuple[subprocess.Popen, float, str]] = {}
    results: dict[int, dict] = {}
    problems: list[str] = []
    child_env = dict(os.environ)
    child_env["PYTHONPATH"] = env.ROOT
    child_env["PYTHONDONTWRITEBYTECODE"] = "1"
    child_env["PYTHONHASHSEED"] = "0"
    child_env["VERIF_REPO"] = env.REPO
    while pending or running:
        while pending and len(running) < max_procs:
            i, job = pending.pop(0)
            sp = os.path.join(tmp, f"shard{i}.json")
            rp = os.path.join(tmp, f"result{i}.json")
            with open(sp, "w") as fh:
                json.dump(job, fh)
            errp = os.path.join(tmp, f"stderr{i}.txt")
            # str hashing (and with it set / dict-of-set iteration order) differs between interpreter runs in production:
            # every shard gets its own, reproducible, hash seed (shard 0 keeps 0)
            shard_env = dict(child_env)
            shard_env["PYTHONHASHSEED"] = str((job["seed"] * 7919 + i * 104729) % 4294967295)
            proc = subprocess.Popen(
                [env.PYTHON, "-B"] + (["-O"] if i % 8 == 5 else []) + list(job["shard"].get("python_flags", [])) + ["-m", "vf.worker", prop, sp, rp],
                cwd=env.ROOT,
                env=shard_env,
                stdout=subprocess.DEVNULL,
                stderr=open(errp, "w"),
            )
            running[i] = (proc, time.time(), rp)
        time.sleep(0.02)
        for i in list(running):
            proc, t0, rp = running[i]
            rc = proc.poll()
            if rc is None:
                if time.time() - t0 > timeout_s:
                    proc.kill()
                    proc.wait()
                    problems.append(f"shard {i}: wall-clock watchdog ({timeout_s:.0f}s) fired")
                    del running[i]
                continue
            del running[i]
            if os.path.exists(rp):
                with open(rp) as fh:
                    results[i] = json.load(fh)
            else:
                tail = ""
                try:
                    tail = open(os.path.join(tmp, f"stderr{i}.txt")).read()[-800:]
                except OSError:
                    pass
                problems.append(f"shard {i}: worker exited {rc} without a result: {tail}")
    return results, problems


def aggregate(results: dict[int, dict]) -> dict:
    agg = {
        "evaluations": 0,
        "digests": set(),
        "distinct_by_construction": 0,
        "counters": {},
        "maxima": {},
        "sets": {},
        "samples": [],
        "violations": [],
        "violation_counts": {},
        "inconclusive": [],
        "shard_wall": [],
        "reached": {},
    }
    for i in sorted(results):
        r = results[i]
        agg["evaluations"] += r["evaluations"]
        agg["distinct_by_construction"] += r["distinct_by_construction"]
        if r.get("digests_file") and os.path.exists(r["digests_file"]):
            a = array.array("Q")
            with open(r["digests_file"], "rb") as fh:
                a.frombytes(fh.read())
            agg["digests"].update(a)
        for k, v in r["counters"].items():
            agg["counters"][k] = agg["counters"].get(k, 0) + v
        for k, v in r.get("maxima", {}).items():
            agg["maxima"][k] = max(agg["maxima"].get(k, float("-inf")), v)
        for k, v in r["sets"].items():
            agg["sets"].setdefault(k, set()).update(v)
        if len(agg["samples"]) < 8:
            agg["samples"].extend(r["samples"][: max(1, 8 - len(agg["samples"]))][:2])
        agg["violations"].extend(r["violations"])
        for k, v in r["violation_counts"].items():
            agg["violation_counts"][k] = agg["violation_counts"].get(k, 0) + v
        for reason in r["inconclusive"]:
            if reason not in agg["inconclusive"]:
                agg["inconclusive"].append(reason)
        agg["shard_wall"].append(round(r.get("wall_s", 0.0), 2))
        for f, lines in r.get("reached", {}).items():
            agg["reached"].setdefault(f, set()).update(lines)
    return agg


def write_replay(prop: str, viol: dict, tier: str, seed: int) -> str:
    d = os.path.join(env.ROOT, "replays")
    os.makedirs(d, exist_ok=True)
    tag = hashlib.sha1(viol["sig"].encode()).hexdigest()[:10]
    path = os.path.join(d, f"{prop}-{tag}.json")
    with open(path, "w") as fh:
        json.dump(
            {"property": prop, "signature": viol["sig"], "message": viol["msg"],
             "tier": tier, "seed": seed, "case": viol["case"]},
            fh, indent=1,
        )
    return path


def do_replay(prop: str, mod, path: str) -> int:
    with open(path) as fh:
        rec = json.load(fh)
    env.import_han()
    ctx = Ctx(prop, rec.get("tier", "quick"), rec.get("seed", 0), {"index": 0})
    mod.replay(unjson(rec["case"]), ctx)
    if ctx.violations:
        for v in ctx.violations:
            print(f"REPRODUCED property={prop} signature={v['sig']}: {v['msg']}")
        print(f"VIOLATION property={prop} replay={path}")
        return 1
    print(f"replay of {path}: no oracle fired on the current tree")
    return 0


def main(argv: list[str] | None = None) -> int:
    ap = argparse.ArgumentParser(prog="check")
    ap.add_argument("prop")
    ap.add_argument("--tier", default=os.environ.get("VERIF_TIER") or "quick", choices=["quick", "thorough"])
    ap.add_argument("--seed", type=int, default=None)
    ap.add_argument("--replay", default=None)
    ap.add_argument("--jobs", type=int, default=int(os.environ.get("VERIF_JOBS", "16")))
    ap.add_argument("--no-evidence", action="store_true", help="do not rewrite evidence/<id>.json (self-test runs)")
    args = ap.parse_args(argv)
    prop = args.prop.upper()
    seed = args.seed
    if seed is None:
        try:
            seed = int(os.environ.get("VERIF_SEED", "0"))
        except ValueError:
            seed = 0
    mod = importlib.import_module(f"vf.props.{prop.lower()}")
    if args.replay:
        return do_replay(prop, mod, args.replay)

    t0 = time.time()
    shards = mod.plan(args.tier, seed)
    for i, s in enumerate(shards):
        s.setdefault("index", i)
    jobs = [{"tier": args.tier, "seed": seed, "shard": s} for s in shards]
    tmp = env.scratch_dir()
    try:
        timeout_s = getattr(mod, "WATCHDOG_S", {"quick": 900, "thorough": 6 * 3600})[args.tier]
        results, problems = _run_shards(prop, jobs, tmp, max(1, args.jobs), timeout_s)
        agg = aggregate(results)
    finally:
        shutil.rmtree(tmp, ignore_errors=True)
    inconclusive = list(problems) + agg["inconclusive"]

    coverage_extra: dict = {}
    if hasattr(mod, "finalize"):
        extra, reasons = mod.finalize(agg, args.tier)
        coverage_extra.update(extra or {})
        inconclusive.extend(reasons or [])

    distinct = len(agg["digests"]) + agg["distinct_by_construction"]
    known = load_known().get(prop, {})
    by_sig: dict[str, dict] = {}
    for v in agg["violations"]:
        by_sig.setdefault(v["sig"], v)
    unlisted = [s for s in by_sig if s not in known]
    listed = [s for s in by_sig if s in known]

    out_lines: list[str] = []
    for s in sorted(listed):
        out_lines.append(
            f"KNOWN-FINDING: property={prop} {s} ({agg['violation_counts'].get(s, 0)} occurrences) {known[s]}"
        )
    replay_paths = []
    for s in sorted(unlisted):
        p = write_replay(prop, by_sig[s], args.tier, seed)
        replay_paths.append(p)
        out_lines.append(f"  oracle fired: {s}: {by_sig[s]['msg'][:400]} ({agg['violation_counts'].get(s, 0)} occurrences)")
        out_lines.append(f"VIOLATION property={prop} replay={p}")

    wall = time.time() - t0
    coverage = {
        "evaluations": agg["evaluations"],
        "distinct_nontrivial": distinct,
        "rule": getattr(mod, "RULE", ""),
        "samples": agg["samples"][:8],
        "counters": dict(sorted(agg["counters"].items())),
        "observed": {k: {"distinct": len(v), "values": sorted(v)[:40]} for k, v in sorted(agg["sets"].items())},
        "shards": len(shards),
        "shard_wall_s": agg["shard_wall"],
        "verdict": "violated" if unlisted else ("inconclusive" if inconclusive else "held on what was observed"),
        "inconclusive_reasons": inconclusive,
        "known_findings_seen": sorted(listed),
        "unlisted_signatures": sorted(unlisted),
    }
    if agg["maxima"]:
        coverage["maxima"] = agg["maxima"]
    coverage.update(coverage_extra)
    try:
        from vf.mon import reach

        coverage["anchored_code_run_under_the_monitors"] = reach.report(env.REPO, agg["reached"], anchored_files(prop))
    except Exception as ex:  # reporting only, never a verdict
        coverage["anchored_code_run_under_the_monitors"] = {"unavailable": repr(ex)[:200]}
    evidence = {
        "property_id": prop,
        "tier": args.tier,
        "seed": seed,
        "level": mod.LEVEL,
        "coverage": coverage,
        "assumptions": list(getattr(mod, "ASSUMPTIONS", [])),
        "wall_s": round(wall, 2),
        "violations": sum(agg["violation_counts"].get(s, 0) for s in unlisted),
    }
    if not args.no_evidence:
        os.makedirs(os.path.join(env.ROOT, "evidence"), exist_ok=True)
        with open(os.path.join(env.ROOT, "evidence", f"{prop}.json"), "w") as fh:
            json.dump(evidence, fh, indent=1, sort_keys=False)
            fh.write("\n")

    for line in out_lines:
        print(line)
    summary = ", ".join(f"{k}={v}" for k, v in list(coverage["counters"].items())[:14])
    print(
        f"{prop} [{args.tier}, seed {seed}] {coverage['verdict']}: {agg['evaluations']} executions, "
        f"{distinct} distinct non-trivial, {len(shards)} shards, {wall:.1f}s; {summary}"
    )
    if unlisted:
        return 1
    if inconclusive:
        for r in inconclusive:
            print(f"INCONCLUSIVE property={prop}: {r[:600]}")
        return 2
    return 0


if __name__ == "__main__":
    sys.exit(main())
