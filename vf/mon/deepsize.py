"""Deep size of an object graph: sum of sys.getsizeof over everything reachable from the root
through gc.get_referents, not following types, modules, functions, code or frames."""
from __future__ import annotations

import gc
import sys
import types

SKIP = (type, types.ModuleType, types.FunctionType, types.BuiltinFunctionType, types.MethodType, types.CodeType, types.FrameType,
        types.GetSetDescriptorType, types.MemberDescriptorType, property, staticmethod, classmethod)


def deep_size(root) -> tuple[int, int]:
    """(bytes, number of objects)."""
    seen = {id(root)}
    stack = [root]
    total = 0
    n = 0
    while stack:
        obj = stack.pop()
        total += sys.getsizeof(obj)
        n += 1
        for ref in gc.get_referents(obj):
            if isinstance(ref, SKIP):
                continue
            i = id(ref)
            if i not in seen:
                seen.add(i)
                stack.append(ref)
    return total, n
