"""Boundary recorder for ModeDReader / DataReadout."""
from __future__ import annotations

import copy

from vf.mon import clock, containers, steps
from vf.mon.hdlc_mon import _with_empty_calls as hdlc_mon_empty


POISON = object()  # appended by the monitor to every list that read() returned


def new_reader():
    from han.dlde import ModeDReader

    return ModeDReader()


def safe(fn):
    """(value, None) or (None, exception)."""
    try:
        return fn(), None
    except Exception as ex:  # recorded by the caller
        return None, ex


_observe_count = 0


def observe(readout) -> dict:
    # applications read the other properties before is_valid as often as after: rotate the order of access
    global _observe_count
    _observe_count += 1
    if _observe_count % 3 == 1:
        for attr in ("identification_line", "payload", "end_line", "expected_checksum", "data_lines", "as_bytes")[(_observe_count // 3) % 6 :][:3]:
            safe(lambda: getattr(readout, attr))
    valid, vex = safe(lambda: readout.is_valid)
    payload, pex = safe(lambda: readout.payload)
    raw, rex = safe(lambda: readout.as_bytes)
    mtype, mex = safe(lambda: readout.message_type)
    return {
        "bytes": raw, "valid": valid, "payload": payload, "type": mtype,
        "exceptions": {k: v for k, v in (("is_valid", vex), ("payload", pex), ("as_bytes", rex), ("message_type", mex)) if v is not None},
    }


BYSTANDER_SCRIPT = (b"/ISk5\\2M", b"T382-1000\r\n", b"\r\n1-0:1.8.0(0001", b"23.456*kWh)\r\n", b"!", b"12", b"AB\r\n", b"/", b"XYZ\r", b"\n!\r\n", b"/KFM5KAIFA-METER\r\n\r\n", b"0-0:1.0.0(", b"x" * 300,
                    b"\n/AB", b"\xf9\n", b"!0000\r\n")
_runs = 0


def run(chunks, reader=None, states: set | None = None):
    """Feed all chunks; returns (observations, exception or None, index of the chunk that raised)."""
    global _runs
    _runs += 1
    reader = reader or new_reader()
    # every third execution another reader object is used between the calls: readers are independent objects
    bystander = new_reader() if _runs % 3 == 0 else None
    by_i = _runs
    out = []
    kept = []
    err = (None, None)
    usable = containers.probe("p1", new_reader, b"/ISk5\\2MT382-1000\r\n\r\n1-0:1.8.0(000123.456*kWh)\r\n!\r\n")
    chunks = hdlc_mon_empty(chunks, _runs)
    for i, ch in enumerate(chunks):
        clock.tick()
        if bystander is not None:
            by_i += 1
            try:
                bystander.read(BYSTANDER_SCRIPT[by_i % len(BYSTANDER_SCRIPT)])
            except Exception:
                pass  # not the object under observation
            containers.used["calls_interleaved_with_another_reader_object"] = containers.used.get("calls_interleaved_with_another_reader_object", 0) + 1
        lent, release = containers.lend(ch, usable)
        armed = steps.arm(steps.read_budget(len(ch)))
        try:
            msgs = reader.read(lent)
        except (Exception, steps.CpuBudgetExceeded) as ex:
            err = (ex, i)
            break
        finally:
            if armed:
                steps.disarm()
            release()  # the caller's buffer is reused as soon as read() has returned
        poisoned = False
        for m in msgs:
            if m is POISON:
                out.append({"bytes": None, "valid": None, "payload": None, "type": None, "exceptions": {}, "poison": True})
                kept.append(None)
                poisoned = True
                break
            out.append(observe(m))
            kept.append(m)
        if poisoned:
            break  # the result list is shared between calls: everything after this point is meaningless
        if isinstance(msgs, list):
            msgs.append(POISON)  # the caller owns the returned list; a list shared between calls would hand this back later
        if states is not None:
            states.add(bool(reader.is_in_hunt_mode))
    # a returned message must not change when the reader goes on reading: observe every message again at the end
    for o, m in zip(out, kept):
        if m is None:
            continue
        again = observe(m)
        o["changed_later"] = any(again[k] != o[k] for k in ("bytes", "valid", "payload"))
        if not o["changed_later"] and _runs % 4 == 1 and (len(out) < 8 or id(m) % 4 == 0):
            # a duplicate of the message (an application may hand a copy to another thread / keep one in a cache) answers like the message
            try:
                dup = observe(copy.deepcopy(m))
            except Exception:
                dup = None  # duplication not supported: not judged
            if dup is not None:
                o["changed_later"] = any(dup[k] != o[k] for k in ("bytes", "valid", "payload"))
    return out, err[0], err[1]


def where(ex: BaseException) -> str:
    """'<ExceptionType>@<module>.<function>' of the innermost frame inside the han package (mechanism signature)."""
    tb = ex.__traceback__
    last = None
    while tb is not None:
        fn = tb.tb_frame.f_code.co_filename
        if "/han/" in fn:
            mod = fn.rsplit("/", 1)[-1][:-3]
            last = f"{mod}.{tb.tb_frame.f_code.co_name}"
        tb = tb.tb_next
    return f"{type(ex).__name__}@{last or 'outside-han'}"


def where_entry(ex: BaseException) -> str:
    """'<module>.<function>' of the outermost han frame below the autodecoder (the decoder entry point)."""
    tb = ex.__traceback__
    while tb is not None:
        fn = tb.tb_frame.f_code.co_filename
        if "/han/" in fn and not fn.endswith("autodecoder.py"):
            return f"{fn.rsplit('/', 1)[-1][:-3]}.{tb.tb_frame.f_code.co_name}"
        tb = tb.tb_next
    return "outside-han"
