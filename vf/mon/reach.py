"""Which statements of the library did the workload of a check actually execute?

Runtime monitoring says nothing about code the workload never drives, so every evidence file states, for the files a
property is anchored in, how many executable lines ran under the monitors and which did not.

sys.monitoring LINE events; the callback returns DISABLE, so every code location reports once and the cost is one call per
distinct line of the whole process.  The tool id is COVERAGE_ID (the step budget of C15 uses PROFILER_ID; tools are
independent of each other).
"""
from __future__ import annotations

import os
import sys

mon = sys.monitoring
TOOL = mon.COVERAGE_ID

_prefix = ""
_reached: dict[str, set[int]] = {}
_installed = False


def _line(code, lineno):
    fn = code.co_filename
    if fn.startswith(_prefix):
        _reached.setdefault(fn[len(_prefix):], set()).add(lineno)
    return mon.DISABLE


def install(repo: str) -> bool:
    """Start recording lines of <repo>/han/*.py. Returns False when the tool id is taken (then nothing is reported)."""
    global _prefix, _installed
    _prefix = os.path.join(os.path.realpath(repo), "")
    try:
        if mon.get_tool(TOOL) is not None:
            return False
        mon.use_tool_id(TOOL, "vf-reach")
        mon.register_callback(TOOL, mon.events.LINE, _line)
        mon.set_events(TOOL, mon.events.LINE)
    except Exception:
        return False
    _installed = True
    return True


def snapshot() -> dict[str, list[int]]:
    return {f: sorted(s) for f, s in _reached.items() if f.startswith("han" + os.sep)}


# ------------------------------------------------------------------ runner side


def executable_lines(path: str) -> set[int]:
    """Line numbers that carry code in `path` (all code objects of the module, as the interpreter sees them)."""
    import ast

    with open(path, "rb") as fh:
        src = fh.read()
    top = compile(src, path, "exec", dont_inherit=True, optimize=0)
    # LINE events fire where a statement starts: continuation lines of a multi-line statement are not counted
    starts = {n.lineno for n in ast.walk(ast.parse(src)) if isinstance(n, ast.stmt)}
    lines: set[int] = set()
    todo = [top]
    while todo:
        co = todo.pop()
        for _s, _e, ln in co.co_lines():
            if ln is not None and ln > 0:
                lines.add(ln)
        for c in co.co_consts:
            if hasattr(c, "co_lines"):
                todo.append(c)
    return lines & starts


def _ranges(nums: list[int]) -> list[str]:
    out, i = [], 0
    while i < len(nums):
        j = i
        while j + 1 < len(nums) and nums[j + 1] == nums[j] + 1:
            j += 1
        out.append(str(nums[i]) if i == j else f"{nums[i]}-{nums[j]}")
        i = j + 1
    return out


def report(repo: str, reached: dict[str, set[int]], files: list[str]) -> dict:
    """Per anchored file: executable lines, lines the workload ran, the lines it did not run (as ranges)."""
    out = {}
    for f in files:
        path = os.path.join(repo, f)
        if not os.path.exists(path):
            continue
        exe = executable_lines(path)
        got = set(reached.get(f, ())) & exe
        out[f] = {
            "executable_lines": len(exe),
            "lines_run_under_the_monitors": len(got),
            "lines_not_run": _ranges(sorted(exe - got)),
        }
    return out
