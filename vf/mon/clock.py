"""Pause injection: the process's monotonic / wall clocks can be made to jump forward between two calls into the library.

A library whose results depend on how much real time passes between calls (inter-octet time-outs, stale-state expiry) is
indistinguishable from a correct one for a campaign that feeds its chunks back to back. `install()` wraps time.monotonic
and time.time (before the library is imported) so that `jump(seconds)` moves all of them forward at once;
`tick()` is called by the monitors between calls and jumps on a deterministic schedule.
"""
from __future__ import annotations

import time

_offset = 0.0
_installed = False
_ticks = 0
_real = {}
jumps = 0


def install() -> None:
    global _installed
    if _installed:
        return
    _installed = True
    for name in ("monotonic", "time"):
        real = getattr(time, name)
        _real[name] = real

        def wrapped(_r=real):
            return _r() + _offset

        wrapped.__name__ = wrapped.__qualname__ = name
        wrapped.__module__ = "time"
        setattr(time, name, wrapped)
    real_ns = time.monotonic_ns
    time.monotonic_ns = lambda: real_ns() + int(_offset * 1e9)


def jump(seconds: float) -> None:
    global _offset, jumps
    _offset += seconds
    jumps += 1


def tick() -> None:
    """Called between two calls into the library: every 5th call the clocks jump (2.5 s, 11 s, 150 s, 2 h in rotation)."""
    global _ticks
    _ticks += 1
    if _installed and _ticks % 5 == 0:
        jump((2.5, 11.0, 150.0, 7200.0)[(_ticks // 5) % 4])
