"""Pause injection: the process's monotonic / wall clocks can be made to jump forward between two calls into the library.

A library whose results depend on how much real time passes between calls (inter-octet time-outs, stale-state expiry) is
indistinguishable from a correct one for a campaign that feeds its chunks back to back. `install()` wraps time.monotonic
time.time, time.perf_counter and their _ns variants (before the library is imported) so that `jump(seconds)` moves all of them forward at once;
`tick()` is called by the monitors between calls and jumps on a deterministic schedule.
"""
from __future__ import annotations

import time

_offset = 0.0
_installed = False
_ticks = 0
_real = {}
jumps = 0


def install() -> None:
    global _installed
    if _installed:
        return
    _installed = True
    for name in ("monotonic", "time", "perf_counter"):
        real = getattr(time, name)
        _real[name] = real

        def wrapped(_r=real):
            return _r() + _offset

        wrapped.__name__ = wrapped.__qualname__ = name
        wrapped.__module__ = "time"
        setattr(time, name, wrapped)
    for name in ("monotonic_ns", "time_ns", "perf_counter_ns"):
        real_ns = getattr(time, name)
        _real[name] = real_ns

        def wrapped_ns(_r=real_ns):
            return _r() + int(_offset * 1e9)

        wrapped_ns.__name__ = wrapped_ns.__qualname__ = name
        wrapped_ns.__module__ = "time"
        setattr(time, name, wrapped_ns)


def jump(seconds: float) -> None:
    global _offset, jumps
    _offset += seconds
    jumps += 1


def tick() -> None:
    """Called between two calls into the library: every 5th call the clocks jump (2.5 s, 11 s, 150 s, 2 h in rotation)."""
    global _ticks
    _ticks += 1
    if _installed and _ticks % 5 == 0:
        jump((2.5, 11.0, 150.0, 7200.0)[(_ticks // 5) % 4])
