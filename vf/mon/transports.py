"""Transports as a protocol object meets them in production: TCP over IPv4 / IPv6, a Unix-domain socket, a serial port.

A reconnect goes to the same endpoint, so successive protocol objects of one process see the *same* peer description;
the kinds rotate on a fixed schedule.  Nothing here decides anything: the monitors keep judging queues, logs and bytes.
"""
from __future__ import annotations

import asyncio

KINDS = ("none", "tcp4", "tcp6", "serial", "unix", "no_peername", "tcp4")


class _SerialPort:
    """What pyserial-asyncio exposes as transport.serial."""

    def __init__(self, name="/dev/ttyUSB0"):
        self.name = self.port = name
        self.baudrate = 2400

    def __str__(self):
        return f"Serial<id=0x7f00, open=True>(port='{self.name}', baudrate={self.baudrate}, bytesize=8, parity='E', stopbits=1)"


class PlainTransport(asyncio.BaseTransport):
    """A transport that only describes its endpoint and remembers whether it was closed."""

    def __init__(self, kind: str):
        super().__init__()
        self.kind = kind
        self.closed = 0
        if kind == "serial":
            self.serial = _SerialPort()

    def get_extra_info(self, name, default=None):
        return peername(self.kind, default) if name == "peername" else default

    def is_closing(self):
        return bool(self.closed)

    def close(self):
        self.closed += 1


def peername(kind: str, default=None, port: int = 2001):
    if kind == "tcp4":
        return ("192.0.2.17", port)
    if kind == "tcp6":
        return ("2001:db8::17", port, 0, 0)
    if kind == "unix":
        return "/run/han/meter.sock"
    return default


def kind_for(counter: int) -> str:
    return KINDS[counter % len(KINDS)]
