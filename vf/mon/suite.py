"""Run the repository's own test-suite in-process with boundary monitors switched on (an extra workload).

A monitor that fires here is either too strict or a defect the tests do not assert; the witness says which test was running.
"""
from __future__ import annotations

import io
import os
import re
from contextlib import redirect_stderr, redirect_stdout

from vf import env
from vf.mon import hdlc_mon
from vf.ref import crc16, hdlc_ref, obis_ref, p1_ref

REDUCED = re.compile(r"^(?:(\d{1,3})-)?(?:(\d{1,3}):)?(\d{1,3})\.(\d{1,3})(?:\.(\d{1,3}))?(?:\*(\d{1,3}))?$")
DOTTED = re.compile(r"^(\d{1,3})\.(\d{1,3})\.(\d{1,3})\.(\d{1,3})\.(\d{1,3})(?:\.(\d{1,3})?)?$")


def _current_test() -> str:
    return os.environ.get("PYTEST_CURRENT_TEST", "?").split(" ")[0]


def run_suite(ctx, which: str) -> None:
    """which in {'C01', 'C04', 'C20'}: install the matching recorders, run pytest on $VERIF_REPO/tests, judge."""
    import pytest

    from han import dlde, hdlc, obis

    records = []
    undo = []
    if which == "C01":
        orig = hdlc.HdlcFrameReader.read
        streams: dict[int, dict] = {}

        def read(self, data_chunk):
            st = streams.setdefault(id(self), {"cfg": (getattr(self, "_use_octet_stuffing", None), getattr(self, "_use_abort_sequence", None)), "fed": bytearray(), "frames": [], "test": _current_test(), "keep": self})
            frames = orig(self, data_chunk)
            st["fed"] += bytes(data_chunk)
            for f in frames:
                st["frames"].append(hdlc_mon.observe(f))
            return frames

        hdlc.HdlcFrameReader.read = read
        undo.append(lambda: setattr(hdlc.HdlcFrameReader, "read", orig))
    elif which == "C04":
        orig_prop = dlde.DataReadout.is_valid

        def is_valid(self):
            v = orig_prop.fget(self)
            records.append((bytes(self.as_bytes), v, _current_test()))
            return v

        dlde.DataReadout.is_valid = property(is_valid)
        undo.append(lambda: setattr(dlde.DataReadout, "is_valid", orig_prop))
    else:
        orig_fn = obis.to_obis_tupple

        def to_obis_tupple(text):
            try:
                r = orig_fn(text)
            except Exception as ex:
                records.append((text, None, ex, _current_test()))
                raise
            records.append((text, r, None, _current_test()))
            return r

        obis.to_obis_tupple = to_obis_tupple
        undo.append(lambda: setattr(obis, "to_obis_tupple", orig_fn))
    cwd = os.getcwd()
    out = io.StringIO()
    try:
        os.chdir(env.REPO)
        with redirect_stdout(out), redirect_stderr(out):
            rc = pytest.main(["-q", "-p", "no:cacheprovider", "-p", "no:benchmark", "-x", os.path.join(env.REPO, "tests")])
    finally:
        os.chdir(cwd)
        for u in undo:
            u()
    ctx.count("suite_pytest_exit_code", int(rc))
    if int(rc) != 0:
        ctx.note_inconclusive(f"repository test-suite did not pass under the monitors (pytest exit {int(rc)}): {out.getvalue()[-300:]}")
    if which == "C01":
        for st in streams.values():
            case = {"suite_test": st["test"], "cfg": [bool(x) for x in st["cfg"]], "stream": bytes(st["fed"]), "split": ["none"]}
            for obs in st["frames"]:
                ctx.count("suite_frames_observed")
                for sig, msg in hdlc_mon.check_frame_exact(obs):
                    ctx.violation(sig + ":in-repo-test", f"{st['test']}: {msg}", case)
            octs = [o["bytes"] for o in st["frames"]]
            if st["cfg"][0] is None:
                ctx.count("suite_readers_with_unknown_configuration(embedding not judged)")
                continue
            bad = hdlc_ref.embedded_stuffed(bytes(st["fed"]), octs) if st["cfg"][0] else hdlc_ref.embedded_plain(bytes(st["fed"]), octs)
            if bad is not None:
                ctx.violation("C01:not-embedded:in-repo-test", f"{st['test']}: frame #{bad} does not occur in what the test fed", case)
            ctx.case(b"suite" + bytes(st["fed"]), bool(octs))
    elif which == "C04":
        for r, v, test in records:
            ctx.count("suite_validity_verdicts")
            ctx.case(b"suite" + r, True)
            if v is True:
                verdicts = p1_ref.checksum_verdicts(r)
                first = r[: r.find(b"\n") + 1]
                if verdicts and all(x == "bad" for x in verdicts):
                    ctx.violation("C04:valid-with-wrong-checksum:in-repo-test", f"{test}: readout reported valid, CRC16 = {crc16.crc16(r[: r.find(b'!') + 1]):04X}", {"readout": r, "label": "suite", "expect_valid": None})
                if not p1_ref.is_liberal_ident(first):
                    ctx.violation("C04:valid-without-ident-line:in-repo-test", f"{test}: {first!r}", {"readout": r, "label": "suite", "expect_valid": None})
    else:
        for text, res, ex, test in records:
            ctx.count("suite_obis_parses")
            ctx.case("suite" + repr(text), True)
            if not isinstance(text, str):
                continue
            m = REDUCED.match(text)
            want = None
            if m:
                want = tuple(int(g) if g is not None else None for g in m.groups())
            else:
                m = DOTTED.match(text)
                if m:
                    want = tuple(int(g) if g else None for g in m.groups())
            case = {"text": text, "groups": list(want) if want else None, "syntax": "suite"}
            if want is not None and (ex is not None or tuple(res) != want):
                ctx.violation("C20:parse-groups:in-repo-test", f"{test}: {text!r} -> {res!r} / {ex!r}, grammar says {want!r}", case)
            if obis_ref.must_raise(text) and not isinstance(ex, ValueError):
                ctx.violation("C20:malformed:in-repo-test", f"{test}: {text!r} has no digit.digit but gave {res!r} / {ex!r}", case)
