"""Logical step budget: counts PY_START / JUMP / BRANCH events (sys.monitoring) in all code while a call runs
and aborts the call with a BaseException subclass once a budget is exceeded.

The verdict 'did not terminate within a polynomial budget' is therefore decided on logical steps, never on a clock.
"""
from __future__ import annotations

import signal
import sys
import time

mon = sys.monitoring
E = mon.events
TOOL = mon.PROFILER_ID


class BudgetExceeded(BaseException):
    """Not an Exception subclass: passes through `except Exception` in the decoders and in construct."""


class CpuBudgetExceeded(BudgetExceeded):
    """The call burnt more CPU time than any polynomial-time decode of <= 8 KiB could need (loops inside C code, e.g. a
    backtracking regular expression, produce no interpreter events; ITIMER_VIRTUAL counts this process's own CPU time only,
    so machine load does not matter)."""


CPU_LIMIT_S = 6.0


class StepBudget:
    def __init__(self):
        self.count = 0
        self.budget = 0
        self.exceeded = False
        self.armed_calls = 0
        self.max_cpu_s = 0.0
        self.cpu_exceeded = False
        signal.signal(signal.SIGVTALRM, self._alarm)
        if mon.get_tool(TOOL) is None:
            mon.use_tool_id(TOOL, "vf-step-budget")
        for ev in (E.PY_START, E.JUMP, E.BRANCH):
            mon.register_callback(TOOL, ev, self._tick)

    def _tick(self, *args):
        self.count += 1
        over = self.count - self.budget
        if over > 0 and over % 1000 == 1:
            # raised again every 1000 further steps in case something swallowed the first one
            self.exceeded = True
            raise BudgetExceeded(f"more than {self.budget} logical steps")

    def _alarm(self, signum, frame):
        self.cpu_exceeded = True
        self.exceeded = True
        raise CpuBudgetExceeded(f"more than {CPU_LIMIT_S} s of CPU time")

    def call(self, fn, budget: int):
        """Run fn() under the budget. Returns (result, exception or None, steps used)."""
        self.count = 0
        self.budget = budget
        self.exceeded = False
        self.armed_calls += 1
        self.cpu_exceeded = False
        t0 = time.process_time()
        signal.setitimer(signal.ITIMER_VIRTUAL, CPU_LIMIT_S)
        mon.set_events(TOOL, E.PY_START | E.JUMP | E.BRANCH)
        try:
            try:
                res = fn()
                exc = None
            except BaseException as ex:  # noqa - recorded by the caller
                res, exc = None, ex
        finally:
            mon.set_events(TOOL, 0)
            signal.setitimer(signal.ITIMER_VIRTUAL, 0)
        used = time.process_time() - t0
        if used > self.max_cpu_s:
            self.max_cpu_s = used
        return res, exc, self.count

    def close(self):
        signal.setitimer(signal.ITIMER_VIRTUAL, 0)
        signal.signal(signal.SIGVTALRM, signal.SIG_DFL)
        mon.set_events(TOOL, 0)
        for ev in (E.PY_START, E.JUMP, E.BRANCH):
            mon.register_callback(TOOL, ev, None)
        mon.free_tool_id(TOOL)


# ------------------------------------------------------------------ CPU budget for reader calls (C14: read() returns)

def _module_alarm(signum, frame):
    raise CpuBudgetExceeded("the call used more CPU time than its budget")


def arm(seconds: float) -> bool:
    """Start a CPU-time budget for the call that follows (main thread only). The handler raises CpuBudgetExceeded inside the call."""
    import threading

    if threading.current_thread() is not threading.main_thread():
        return False
    if signal.getsignal(signal.SIGVTALRM) in (signal.SIG_DFL, signal.SIG_IGN, None):
        signal.signal(signal.SIGVTALRM, _module_alarm)
    signal.setitimer(signal.ITIMER_VIRTUAL, seconds)
    return True


def disarm() -> None:
    signal.setitimer(signal.ITIMER_VIRTUAL, 0)


def read_budget(n_octets: int) -> float:
    """CPU seconds allowed for one read() call: the readers need about 2 microseconds per octet; 6 s + 20 us per octet + 3 ms x (chunk / 64 KiB)^2."""
    # (the unchanged HDLC reader re-slices its whole buffer after every completed frame, so a call that carries many frames costs
    # time proportional to frames x buffer size: the quadratic term keeps multi-MiB calls out of the verdict - the budget is there to
    # turn a call that never returns into a verdict, not to judge speed)
    return CPU_LIMIT_S + 20e-6 * n_octets + 3e-3 * (n_octets / 65536.0) ** 2
