"""Logical step budget: counts PY_START / JUMP / BRANCH events (sys.monitoring) in all code while a call runs
and aborts the call with a BaseException subclass once a budget is exceeded.

The verdict 'did not terminate within a polynomial budget' is therefore decided on logical steps, never on a clock.
"""
from __future__ import annotations

import sys

mon = sys.monitoring
E = mon.events
TOOL = mon.PROFILER_ID


class BudgetExceeded(BaseException):
    """Not an Exception subclass: passes through `except Exception` in the decoders and in construct."""


class StepBudget:
    def __init__(self):
        self.count = 0
        self.budget = 0
        self.exceeded = False
        self.armed_calls = 0
        if mon.get_tool(TOOL) is None:
            mon.use_tool_id(TOOL, "vf-step-budget")
        for ev in (E.PY_START, E.JUMP, E.BRANCH):
            mon.register_callback(TOOL, ev, self._tick)

    def _tick(self, *args):
        self.count += 1
        over = self.count - self.budget
        if over > 0 and over % 1000 == 1:
            # raised again every 1000 further steps in case something swallowed the first one
            self.exceeded = True
            raise BudgetExceeded(f"more than {self.budget} logical steps")

    def call(self, fn, budget: int):
        """Run fn() under the budget. Returns (result, exception or None, steps used)."""
        self.count = 0
        self.budget = budget
        self.exceeded = False
        self.armed_calls += 1
        mon.set_events(TOOL, E.PY_START | E.JUMP | E.BRANCH)
        try:
            try:
                res = fn()
                exc = None
            except BaseException as ex:  # noqa - recorded by the caller
                res, exc = None, ex
        finally:
            mon.set_events(TOOL, 0)
        return res, exc, self.count

    def close(self):
        mon.set_events(TOOL, 0)
        for ev in (E.PY_START, E.JUMP, E.BRANCH):
            mon.register_callback(TOOL, ev, None)
        mon.free_tool_id(TOOL)
