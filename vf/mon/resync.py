"""Clean message suffixes and the C16 delivery oracle (shared by C14 and C16)."""
from __future__ import annotations

from vf.gen import hdlc_gen, p1_gen
from vf.ref import hdlc_ref


def hdlc_suffix(rng, cfg, n: int, max_info: int | None = 60):
    """n well-formed frames inside C02's domain for cfg (flag-free when stuffing is off), delimited as on a real line.

    Returns (wire bytes, [(frame octets, start offset of the frame in the wire bytes)])."""
    stuffing, abort = cfg
    ids = hdlc_gen.IdSource(rng)
    out = bytearray()
    sent = []
    out += b"\x7e"
    for i in range(n):
        while True:
            if rng.random() < 0.12:
                fr, _d, _k = hdlc_gen.special_frame(rng, ids, rng.choice(("near_max_dense", "fcs_zero", "hcs_zero", "fcs_ends_7d", "reg_zero_mid")) if stuffing else rng.choice(("fcs_zero", "hcs_zero", "reg_zero_mid")))
            else:
                fr, _d = hdlc_gen.good_frame(rng, ids, max_info=max_info if rng.random() < 0.9 else None, want_info=True, dense=rng.random() < 0.3)
            if stuffing:
                break
            if 0x7E not in fr and hdlc_gen.in_plain_domain(fr, abort):
                break
        sent.append((fr, len(out)))
        out += hdlc_gen.on_wire(fr, stuffing)
        out += b"\x7e"
        if i != n - 1 and rng.random() < 0.6:
            out += b"\x7e"  # closing + opening flag; otherwise one shared flag
        elif i != n - 1 and rng.random() < 0.25:
            out += hdlc_gen.fill(rng)  # time fill between frames
    return bytes(out), sent


def p1_suffix(rng, n: int):
    ids = p1_gen.IdSource(rng)
    sent = [p1_gen.strict_readout(rng, ids, rng.choice((0, 1, 3, 8, 20)), checksum=rng.choice(("correct", "correct", None))) for _ in range(n)]
    return b"".join(sent), sent


def judge_delivery(required: list[bytes], sent: list[bytes], returned: list[tuple[bytes, bool]]):
    """Yield (kind, message). returned = [(octets, valid)] in order of delivery.

    required must all be returned valid; every sent message at most once, in order, byte-identical."""
    valid_octets = [o for o, v in returned if v]
    pos = {s: i for i, s in enumerate(sent)}
    seen_idx = []
    for o in valid_octets:
        if o in pos:
            seen_idx.append(pos[o])
    if len(set(seen_idx)) != len(seen_idx):
        yield ("duplicated", f"a clean message was delivered more than once (indices {seen_idx})")
    elif seen_idx != sorted(seen_idx):
        yield ("reordered", f"clean messages delivered out of order (indices {seen_idx})")
    # a message returned byte-identical to a clean one but reported invalid: the noise corrupted its validation
    invalid_identical = [pos[o] for o, v in returned if not v and o in pos]
    if invalid_identical:
        yield ("clean-message-returned-invalid", f"clean messages {invalid_identical} were returned byte-identical but reported invalid")
    have = set(valid_octets)
    missing = [i for i, s in enumerate(sent) if s in required and s not in have]
    if missing:
        # was it returned damaged instead?
        all_octets = [o for o, _v in returned]
        damaged = [i for i in missing if sent[i] in all_octets]
        kind = "returned-invalid" if damaged else "lost"
        yield (kind, f"clean messages {missing} of {len(sent)} not delivered valid after the noise (allowed to miss: those not in the required set)")


def required_hdlc(cfg, sent_with_offsets, noise_len: int = 0):
    """C16's guaranteed set. Offsets are relative to the end of the noise."""
    frames = [f for f, _ in sent_with_offsets]
    if cfg[0]:
        return frames[1:]
    return [f for f, off in sent_with_offsets if off > 2047 + len(f)]
