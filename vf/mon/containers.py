"""The caller's side of read(data): which object holds the octets, and what happens to it afterwards.

A serial / socket layer often hands out a slice of a receive buffer that it overwrites as soon as the call returns.  The monitors
therefore lend chunks in rotating containers - bytes, a bytearray, a memoryview of bytes, a memoryview slice at a non-zero offset of a
larger bytearray - and scribble over every mutable one right after the call.  A reader that copies what it needs (the unchanged tree
does) cannot notice; one that keeps a reference, or mis-handles a view's offset, returns other bytes and the ordinary oracles fire.

Whether the tree under test accepts a container at all is settled once per process by a probe on a throw-away reader (`usable`);
containers it does not accept are never used, so a library that insists on `bytes` is not reported for it.
"""
from __future__ import annotations

KINDS = ("bytes", "bytearray", "memoryview", "bytes", "memoryview_slice_at_offset", "bytes", "bytearray", "memoryview_slice_at_offset")
_counter = 0
_usable: dict[str, set] = {}
used: dict[str, int] = {}


def probe(name: str, make_reader, sample: bytes) -> set:
    """Which containers does this reader class accept (a plain well-formed message, one call)?"""
    if name in _usable:
        return _usable[name]
    ok = {"bytes"}
    for kind in ("bytearray", "memoryview", "memoryview_slice_at_offset"):
        try:
            c, release = _lend(sample, kind)
            r = make_reader().read(c)
            release()
            if len(r) == len(make_reader().read(sample)):
                ok.add(kind)
        except Exception:
            pass
    _usable[name] = ok
    return ok


def _lend(chunk: bytes, kind: str):
    if kind == "bytearray":
        b = bytearray(chunk)

        def release():
            b[:] = b"\xaa" * len(b)

        return b, release
    if kind == "memoryview":
        return memoryview(chunk), lambda: None
    if kind == "memoryview_slice_at_offset":
        backing = bytearray(b"\x7e/!\r\n" + chunk + b"\x7e!\n")
        view = memoryview(backing)[5 : 5 + len(chunk)]

        def release():
            view.release()
            backing[:] = b"\x55" * len(backing)

        return view, release
    return chunk, lambda: None


def lend(chunk: bytes, usable: set):
    """(container, release) - the next container of the rotation that the reader accepts."""
    global _counter
    _counter += 1
    kind = KINDS[_counter % len(KINDS)]
    if kind not in usable:
        kind = "bytes"
    used[kind] = used.get(kind, 0) + 1
    return _lend(chunk, kind)


def report(ctx) -> None:
    for k, v in used.items():
        ctx.count(k if k.startswith("calls_") else "read_calls_given_a_" + k, v)
    used.clear()
