"""Deterministic virtual-time asyncio event loop, fake connection factory/transport and an event log.

* VirtualLoop: a SelectorEventLoop whose selector never does I/O; select(t)
  advances a virtual clock by t. Time only moves when every task is blocked, so
  a scenario is a deterministic function of its description. An iteration
  counter and a pre-iteration hook allow a callback (e.g. ConnectionManager.close)
  to be injected at any iteration and at any position of that iteration's ready
  queue.
* FakeFactory / FakeTransport: behave like a real asyncio connection factory and
  transport at the boundary the manager sees (close() idempotent, connection_lost
  delivered once via call_soon), and record every observable event with virtual
  time and iteration index.
"""
from __future__ import annotations

import asyncio
import datetime as _real_datetime
import selectors


class Deadlock(Exception):
    """select(None): nothing ready and nothing scheduled (or a livelock, see VirtualLoop._run_once)."""


class _VSelector(selectors.SelectSelector):
    def __init__(self, owner):
        super().__init__()
        self._owner = owner

    def select(self, timeout=None):
        if timeout is None:
            raise Deadlock()
        if timeout > 0:
            self._owner.vtime += timeout
        return []


class VirtualLoop(asyncio.SelectorEventLoop):
    def __init__(self):
        self.vtime = 0.0
        self.iteration = 0
        self.max_iterations = 400000
        self.pre_iteration = None
        super().__init__(selector=_VSelector(self))

    def time(self):
        return self.vtime

    def _run_once(self):
        self.iteration += 1
        if self.iteration > self.max_iterations:
            raise Deadlock("livelock: the loop keeps running without the clock advancing")
        if self.pre_iteration is not None:
            self.pre_iteration(self)
        super()._run_once()

    def ready_len(self) -> int:
        return len(self._ready)

    def inject(self, position: int, fn, *args) -> None:
        """Insert a callback at a position of the current ready queue (0 = runs first)."""
        h = asyncio.Handle(fn, args, self)
        pos = max(0, min(position, len(self._ready)))
        self._ready.insert(pos, h)


EPOCHS = (
    _real_datetime.datetime(2020, 1, 1),
    _real_datetime.datetime(2026, 10, 25, 0, 59, 57),  # end of daylight saving in Europe one second-ish later (01:00 UTC)
    _real_datetime.datetime(2026, 3, 29, 0, 59, 57),  # start of daylight saving
    _real_datetime.datetime(2024, 2, 29, 23, 59, 55),  # leap day, midnight ahead
    _real_datetime.datetime(2025, 12, 31, 23, 59, 55),  # last day of month and year
    _real_datetime.datetime(2026, 9, 30, 12, 0, 0),  # last day of a 30-day month
)


class ClockShim:
    """Stands in for the `datetime` module inside han.meter_connection: utcnow() follows the virtual clock."""

    def __init__(self, loop: VirtualLoop, epoch=None):
        epoch = epoch or EPOCHS[0]
        self.date = _real_datetime.date
        self.time = _real_datetime.time
        shim = self
        self._loop = loop
        self.calls = 0
        self.timedelta = _real_datetime.timedelta
        self.timezone = _real_datetime.timezone

        class _DT(_real_datetime.datetime):
            @classmethod
            def utcnow(cls):
                shim.calls += 1
                return epoch + _real_datetime.timedelta(seconds=loop.vtime)

            @classmethod
            def now(cls, tz=None):
                shim.calls += 1
                base = epoch + _real_datetime.timedelta(seconds=loop.vtime)
                return base.replace(tzinfo=tz) if tz is not None else base

        self.datetime = _DT


class Log:
    def __init__(self, loop: VirtualLoop):
        self.loop = loop
        self.events: list[tuple] = []

    def add(self, kind: str, *args) -> None:
        self.events.append((round(self.loop.vtime, 6), self.loop.iteration, kind) + args)


class FakeTransport(asyncio.BaseTransport):
    def __init__(self, log: Log, index: int, endpoint: str = "tcp4"):
        super().__init__()
        self.log = log
        self.index = index
        self.endpoint = endpoint
        if endpoint == "serial":
            from vf.mon import transports

            self.serial = transports._SerialPort()
        self.closed = False
        self.lost = False
        self.protocol = None
        self.close_raises_after_loss = False
        self.eof_first = False
        self.eof_delay = 0.3
        self.close_delay = 0.0  # > 0: connection_lost() is delivered that long after close() (TLS shutdown, a bridge, a slow serial driver)

    def get_extra_info(self, name, default=None):
        if name != "peername":
            return default
        from vf.mon import transports

        # a reconnect goes to the same endpoint: every attempt of a scenario reports the same peer
        return transports.peername(self.endpoint, default)

    def is_closing(self):
        return self.closed or self.lost

    def close(self):
        if self.closed or self.lost:
            if not self.closed:
                self.closed = True  # close after loss: nothing to do, like a real transport
                if self.close_raises_after_loss:
                    # e.g. an unplugged USB serial adapter: closing the dead file descriptor fails
                    self.log.add("close_raised", self.index)
                    raise OSError(9, "Bad file descriptor (virtual)")
            return
        self.closed = True
        self.log.add("transport_close", self.index)
        if self.close_delay > 0:
            self.log.loop.call_later(self.close_delay, self._deliver_lost, None)
        else:
            self.log.loop.call_soon(self._deliver_lost, None)

    def lose(self):
        """The peer went away."""
        if self.closed or self.lost:
            return
        if self.eof_first and self.protocol is not None:
            # an orderly shutdown by the peer: the transport first reports end-of-file, then takes a moment to close itself (TLS close,
            # lingering close) and only then delivers connection_lost(): until then the connection has not ended
            self.eof_first = False
            eof = getattr(self.protocol, "eof_received", None)
            if eof is not None:
                try:
                    eof()
                except Exception:
                    pass
            self.log.loop.call_later(self.eof_delay, self.lose)
            return
        self.lost = True
        self.log.add("lost", self.index)
        self._deliver_lost(ConnectionResetError("virtual connection lost"))

    def _deliver_lost(self, exc):
        if self.protocol is not None:
            p, self.protocol = self.protocol, None
            p.connection_lost(exc)


import errno as _errno
import socket as _socket

# what real connection factories raise; every failing attempt uses the next one
FAILURES = (
    lambda: ConnectionRefusedError(_errno.ECONNREFUSED, "virtual: connection refused"),
    lambda: OSError(_errno.EINTR, "virtual: interrupted system call"),
    lambda: TimeoutError("virtual: timed out"),
    lambda: BlockingIOError(_errno.EAGAIN, "virtual: resource temporarily unavailable"),
    lambda: _socket.gaierror(-2, "virtual: name or service not known"),
    lambda: OSError(_errno.EALREADY, "virtual: operation already in progress"),
    lambda: InterruptedError(_errno.EINTR, "virtual: interrupted"),
    lambda: ValueError("virtual: bad serial port settings"),
    lambda: OSError(_errno.ENETUNREACH, "virtual: network is unreachable"),
)


TRAFFIC_READOUT = b"/ISk5\\2MT382-1000\r\n\r\n1-0:1.8.0(000123.456*kWh)\r\n!\r\n"


class FakeFactory:
    """outcomes[i] in {'ok','fail','slow_ok','slow_fail'}; lifetimes[i] = None (stays up) or seconds until the peer is lost."""

    SLOW = 2.5

    def __init__(self, log: Log, outcomes, lifetimes, default_outcome="fail", default_lifetime=None):
        self.log = log
        self.outcomes = list(outcomes)
        self.lifetimes = list(lifetimes)
        self.default_outcome = default_outcome
        self.default_lifetime = default_lifetime
        self.calls = 0
        self.close_raises_after_loss = False
        self.probe = None
        self.transports: list[FakeTransport] = []
        # both are functions of the scenario (not of the run), so that the same word behaves the same for every injected close()
        self.endpoint = "tcp4"
        self.traffic = False
        self.eof_first = False
        self.deferred_made = False  # connection_made() scheduled with call_soon, as serial_asyncio does, instead of called before the factory returns
        self.close_delay = 0.0

    def make(self):
        async def factory():
            from han.dlde import ModeDReader
            from han.meter_connection import SmartMeterMessageProtocol

            i = self.calls
            self.calls += 1
            outcome = self.outcomes[i] if i < len(self.outcomes) else self.default_outcome
            lifetime = self.lifetimes[i] if i < len(self.lifetimes) else self.default_lifetime
            self.log.add("attempt_start", i)
            try:
                if outcome.startswith("slow"):
                    await asyncio.sleep(self.SLOW)
                if outcome.endswith("self_cancel"):
                    # the factory's own connect future is cancelled (e.g. by its own watchdog): not caused by the manager
                    self.log.add("attempt_fail", i)
                    raise asyncio.CancelledError()
                if outcome.endswith("fail") and not outcome.endswith("ok_dead"):
                    self.log.add("attempt_fail", i)
                    raise FAILURES[i % len(FAILURES)]()
                transport = FakeTransport(self.log, i, self.endpoint)
                transport.close_raises_after_loss = self.close_raises_after_loss
                transport.close_delay = self.close_delay
                transport.eof_first = self.eof_first
                protocol = SmartMeterMessageProtocol(asyncio.Queue(), [ModeDReader()])
                transport.protocol = protocol
                if self.deferred_made:
                    self.log.loop.call_soon(protocol.connection_made, transport)
                else:
                    protocol.connection_made(transport)
                self.transports.append(transport)
                self.log.add("attempt_ok", i)
                if outcome.endswith("ok_dead"):
                    # dead on arrival: the peer hung up while the factory was still returning (connection_lost() has already run)
                    transport.lose()
                if self.probe is not None:
                    # (only while that connection is still up: after a loss the strategy object legitimately counts again)
                    self.log.loop.call_later(0.05, lambda tr=transport, n=i: self.probe(n) if not (tr.lost or tr.closed) else None)
                if lifetime is not None:
                    self.log.loop.call_later(lifetime, transport.lose)
                if self.traffic:
                    # the meter talks: a well-formed readout shortly after the connection is up (a reader gets selected) and another one later
                    def deliver(tr=transport, n=i):
                        if tr.protocol is not None and not tr.closed and not tr.lost:
                            self.log.add("data_delivered", n)
                            tr.protocol.data_received(TRAFFIC_READOUT)

                    self.log.loop.call_later(0.01, deliver)
                    self.log.loop.call_later(1.0, deliver)
                return transport, protocol
            except asyncio.CancelledError:
                self.log.add("attempt_cancelled", i)
                raise

        return factory


STATS: dict[str, int] = {}


def report(ctx) -> None:
    """Copy what the scenarios of this process looked like into the evidence counters."""
    for k, v in STATS.items():
        if k.startswith("endpoint:"):
            ctx.seen("transport_endpoints", f"{k[9:]}")
            ctx.count("scenarios_with_endpoint_" + k[9:], v)
        else:
            ctx.count(k, v)
    STATS.clear()


def run_scenario(outcomes, lifetimes, horizon: float, close_at=None, config=None, default_outcome="fail",
                 default_lifetime=None, use_clock_shim: bool = True, track_tasks: bool = True, close_raises_after_loss: bool = False,
                 after_close: float = 200.0, epoch=None, restart_after: float | None = None, close_delay: float = 0.0, second_close_at: float | None = None):
    """Run ConnectionManager.connect_loop() on a fresh virtual loop.

    close_at: None | ("iteration", k, position) | ("time", t) - position: 'first' | 'last' | int index into the ready queue.
    Returns dict(events, iterations, max_tasks, ready_len_at_injection, shim_calls, error).
    """
    from han import meter_connection as mc

    loop = VirtualLoop()
    asyncio.set_event_loop(loop)
    log = Log(loop)
    factory = FakeFactory(log, outcomes, lifetimes, default_outcome, default_lifetime)
    factory.close_raises_after_loss = close_raises_after_loss
    import zlib

    from vf.mon import transports

    key = zlib.crc32(repr((list(outcomes), list(lifetimes), sorted((config or {}).items()), default_outcome, default_lifetime)).encode())
    factory.endpoint = transports.KINDS[1:][key % (len(transports.KINDS) - 1)]
    factory.traffic = (key >> 8) % 2 == 1
    factory.deferred_made = (key >> 9) % 2 == 1
    factory.eof_first = (key >> 10) % 3 == 0
    if (key >> 12) % 2 == 1 and hasattr(asyncio, "eager_task_factory"):
        # Python 3.12's eager task factory (what Home Assistant runs): a coroutine that never suspends finishes inside create_task()
        loop.set_task_factory(asyncio.eager_task_factory)
        STATS["scenarios_on_a_loop_with_the_eager_task_factory"] = STATS.get("scenarios_on_a_loop_with_the_eager_task_factory", 0) + 1
    factory.close_delay = close_delay
    shim = None
    saved = mc.datetime
    if use_clock_shim:
        shim = ClockShim(loop, epoch)
        mc.datetime = shim
    info = {"ready_len_at_injection": None, "max_tasks": 0, "task_samples": []}
    result = {"error": None}
    try:
        mgr = mc.ConnectionManager(factory.make())

        def probe(i):
            strategy = getattr(mgr, "back_off_connect_error", None)
            delay = getattr(strategy, "current_delay_sec", None)
            if delay is not None:
                log.add("backoff_delay_while_connected", i, delay)

        factory.probe = probe
        for k, v in (config or {}).items():
            if k == "max_delay":
                mgr.back_off_connect_error.max_delay = v
            else:
                setattr(mgr, k, v)
        state = {"closed": False, "returned": False}

        def do_close():
            if state["closed"]:
                return
            state["closed"] = True
            state["closes"] = state.get("closes", 0) + 1
            state["t_close"] = loop.vtime
            log.add("close_called")
            mgr.close()

        def hook(lp):
            if track_tasks:
                n = len(asyncio.all_tasks(lp))
                if n > info["max_tasks"]:
                    info["max_tasks"] = n
                if lp.iteration % 64 == 0:
                    info["task_samples"].append((lp.iteration, n))
            if close_at is not None and close_at[0] == "iteration" and lp.iteration == close_at[1] and not state["closed"]:
                pos = close_at[2]
                info["ready_len_at_injection"] = lp.ready_len()
                if pos == "first":
                    lp.inject(0, do_close)
                elif pos == "last":
                    lp.call_soon(do_close)
                else:
                    lp.inject(int(pos), do_close)

        loop.pre_iteration = hook

        async def main():
            task = asyncio.ensure_future(mgr.connect_loop())
            state["task"] = task

            def start_again():
                # the application calls connect_loop() again on the same manager object (close() is not the end of its life)
                log.add("loop_restarted")
                state["closed"] = False
                state["returned"] = False
                state["task"] = asyncio.ensure_future(mgr.connect_loop())
                state["task"].add_done_callback(returned)

            def returned(_t):
                if state.get("harness_cancel"):
                    log.add("loop_cancelled_by_harness")
                    return
                state["returned"] = True
                log.add("loop_returned")
                if restart_after is not None and state["closed"] and not state.get("restarted"):
                    state["restarted"] = True
                    loop.call_later(restart_after, start_again)

            task.add_done_callback(returned)
            if close_at is not None and close_at[0] == "time":
                loop.call_later(close_at[1], do_close)
            if second_close_at is not None:
                loop.call_later(second_close_at, do_close)
            await asyncio.sleep(horizon)
            for _ in range(3):  # a close() injected as the last callback of this very iteration runs one iteration later
                await asyncio.sleep(0)
            # a close() that landed shortly before the horizon still gets its full observation window
            while state["closed"] and loop.vtime < state["t_close"] + after_close:
                await asyncio.sleep(state["t_close"] + after_close - loop.vtime)
            log.add("horizon")
            info["tasks_at_horizon"] = len(asyncio.all_tasks(loop))
            task = state["task"]
            if not task.done():
                state["harness_cancel"] = True
                task.cancel()
                try:
                    await task
                except (asyncio.CancelledError, Exception):
                    pass
            elif task.exception() is not None:
                result["error"] = repr(task.exception())

        loop.run_until_complete(main())
    except Deadlock:
        result["error"] = "deadlock: select(None)"
    except Exception as ex:  # harness or manager blew up
        result["error"] = repr(ex)
    finally:
        mc.datetime = saved
        try:
            for t in asyncio.all_tasks(loop):
                t.cancel()
            loop.run_until_complete(asyncio.sleep(0))
        except Exception:
            pass
        loop.close()
        asyncio.set_event_loop(None)
    result.update(endpoint=factory.endpoint, traffic=factory.traffic)
    STATS["endpoint:" + factory.endpoint] = STATS.get("endpoint:" + factory.endpoint, 0) + 1
    if factory.deferred_made:
        STATS["scenarios_with_connection_made_scheduled_after_the_factory_returns"] = STATS.get("scenarios_with_connection_made_scheduled_after_the_factory_returns", 0) + 1
    if factory.traffic:
        STATS["scenarios_in_which_the_meter_sends_readouts"] = STATS.get("scenarios_in_which_the_meter_sends_readouts", 0) + 1
        STATS["readouts_delivered_to_connected_protocols"] = STATS.get("readouts_delivered_to_connected_protocols", 0) + sum(1 for e in log.events if e[2] == "data_delivered")
    result.update(events=log.events, iterations=loop.iteration, shim_calls=shim.calls if shim else 0, **info)
    return result
