"""Boundary recorder for HdlcFrameReader: feed chunks, record what read() returns."""
from __future__ import annotations

import copy

from vf.mon import clock, containers, steps
from vf.ref import hdlc_ref


POISON = object()  # appended by the monitor to every list that read() returned


def new_reader(cfg):
    from han.hdlc import HdlcFrameReader

    return HdlcFrameReader(use_octet_stuffing=bool(cfg[0]), use_abort_sequence=bool(cfg[1]))


_observe_count = 0


def observe(frame) -> dict:
    global _observe_count
    _observe_count += 1
    h = frame.header
    if _observe_count % 2:
        # read validity last / first alternately
        pre = (frame.payload, frame.frame_check_sequence, h.control, frame.is_good_ffc if hasattr(frame, "is_good_ffc") else None)
        del pre
    return {
        "bytes": bytes(frame.as_bytes),
        "valid": frame.is_valid,
        "payload": frame.payload,
        "fcs": frame.frame_check_sequence,
        "length": h.frame_length,
        "type": h.frame_format_type,
        "seg": h.segmentation,
        "dst": h.destination_address,
        "src": h.source_address,
        "ctrl": h.control,
        "hcs": h.header_check_sequence,
    }


def boundary_state(reader) -> tuple:
    hunt = bool(reader.is_in_hunt_mode)
    esc = bool(getattr(reader, "unescape_next", False))
    fr = getattr(reader, "_frame", None)
    n = len(fr) if fr is not None else -1
    bucket = "hunt" if n < 0 else "0" if n == 0 else "1-2" if n < 3 else "hdr" if n < 8 else "body" if n < 2040 else "near-max"
    return (hunt, esc, bucket)


# what the *other* reader object of the process receives between two calls of the observed one: partial frames, calls that end right
# after an escape octet or inside a header, aborts, flags, an over-long run - every state a reader can be left in
BYSTANDER_SCRIPT = (b"\x7e\xa0\x0c\x01\x02\x01\x10\x27\xa0", b"\x02\x7d", b"\x5e\x7d", b"\x7e", b"\x7e\xa0", b"\x7d", b"\x7e\x7e\x7e", b"\xa0\x08\x01\x02\x01\x10\x37\x8d\x7e",
                    b"\x7e\xa7\xff\x03" + b"\x55" * 60, b"\x41\x7d", b"\x7d\x7e", b"\x00" * 40 + b"\x7d", b"\x7e\xa0\x0c\x01\x02\x01\x10\x27\xa0\x02\x01\xe7\xde\x7e", b"\x7e\xa8\x0c\x01\x7d")
_runs = 0


def _with_empty_calls(chunks, k: int):
    """Every fifth execution some calls carry no octets at all (a read that timed out): read(b'') is a call like any other."""
    if k % 5 != 2:
        return chunks
    out = []
    for i, ch in enumerate(chunks):
        if (i + k) % 7 == 0:
            # one to four of them in a row
            for _ in range(1 + (i + k // 5) % 4):
                out.append(b"")
                containers.used["calls_with_an_empty_chunk"] = containers.used.get("calls_with_an_empty_chunk", 0) + 1
        out.append(ch)
    return out


def run(cfg, chunks, ctx=None, reader=None, states: set | None = None):
    """Feed all chunks; returns (list of observed frames, exception or None)."""
    global _runs
    _runs += 1
    reader = reader or new_reader(cfg)
    # every third execution another reader object (rotating configuration) is used between the calls: readers are independent objects
    bystander = new_reader(((_runs // 3) % 2 == 0, (_runs // 6) % 2 == 0)) if _runs % 3 == 0 else None
    by_i = _runs
    out = []
    kept = []
    err = None
    usable = containers.probe("hdlc", lambda: new_reader((False, False)), b"\x7e" + bytes.fromhex("a00c0102011027a00201e7de") + b"\x7e")
    chunks = _with_empty_calls(chunks, _runs)
    for ch in chunks:
        clock.tick()
        if bystander is not None:
            by_i += 1
            try:
                bystander.read(BYSTANDER_SCRIPT[by_i % len(BYSTANDER_SCRIPT)])
            except Exception:
                pass  # not the object under observation
            containers.used["calls_interleaved_with_another_reader_object"] = containers.used.get("calls_interleaved_with_another_reader_object", 0) + 1
        lent, release = containers.lend(ch, usable)
        armed = steps.arm(steps.read_budget(len(ch)))
        try:
            frames = reader.read(lent)
        except (Exception, steps.CpuBudgetExceeded) as ex:  # recorded, never swallowed silently: C14 decides on it
            err = ex
            break
        finally:
            if armed:
                steps.disarm()
            release()  # the caller's buffer is reused as soon as read() has returned
        poisoned = False
        for f in frames:
            if f is POISON:
                out.append({"bytes": b"<object appended by the caller to an earlier result list>", "valid": False, "payload": None, "fcs": None, "length": None, "type": None,
                            "seg": None, "dst": None, "src": None, "ctrl": None, "hcs": None, "poison": True})
                kept.append(None)
                poisoned = True
                break
            out.append(observe(f))
            kept.append(f)
        if poisoned:
            break  # the result list is shared between calls: everything after this point is meaningless
        if isinstance(frames, list):
            frames.append(POISON)  # the caller owns the returned list; a list shared between calls would hand this back later
        if states is not None:
            states.add(boundary_state(reader))
    # a returned frame must not change when the reader goes on reading: observe every frame again at the end
    for o, f in zip(out, kept):
        if f is None:
            continue
        again = observe(f)
        o["changed_later"] = any(again[k] != o[k] for k in ("bytes", "valid", "payload"))
        if not o["changed_later"] and _runs % 4 == 1 and (len(out) < 8 or id(f) % 4 == 0):
            # a duplicate of the message (an application may hand a copy to another thread / keep one in a cache) answers like the message
            try:
                dup = observe(copy.deepcopy(f))
            except Exception:
                dup = None  # duplication not supported: not judged
            if dup is not None:
                o["changed_later"] = any(dup[k] != o[k] for k in ("bytes", "valid", "payload"))
    return out, err


def triple(obs: dict) -> tuple:
    """What C06 compares across splittings (None and b'' payloads are both 'no information')."""
    return (obs["bytes"], bool(obs["valid"]), obs["payload"] or b"")


def check_frame_exact(obs: dict):
    """C01 (a)+(b) for one observed frame. Yields (signature, message)."""
    o = obs["bytes"]
    want = hdlc_ref.is_intact(o)
    got = obs["valid"]
    if got is not True and got is not False:
        yield ("C01:is_valid-not-bool", f"is_valid returned {got!r}")
    if bool(got) and not want:
        why = "length" if len(o) < 2 or (((o[0] << 8) | o[1]) & 0x7FF) != len(o) else "fcs"
        yield (f"C01:valid-but-damaged:{why}", f"frame {o.hex()[:120]} (len {len(o)}) reported valid; model: not intact ({why})")
    if not bool(got) and want:
        yield ("C01:intact-but-invalid", f"frame {o.hex()[:120]} (len {len(o)}) is intact but reported invalid")
    if not want or not bool(got):
        return
    f = hdlc_ref.parse(o)
    if f is None:
        # intact by length/FCS but the address fields do not terminate: nothing to compare
        return
    def two(v):
        return None if v is None else int(v).to_bytes(2, "big")
    checks = [
        ("length", obs["length"], f.length),
        ("destination_address", obs["dst"], f.destination),
        ("source_address", obs["src"], f.source),
        ("control", obs["ctrl"], f.control),
        ("header_check_sequence", two(obs["hcs"]), f.hcs),
        ("frame_check_sequence", two(obs["fcs"]), f.fcs),
        ("format_type", obs["type"], f.format_type),
        ("segmentation", obs["seg"], f.segmentation),
    ]
    for name, got_v, want_v in checks:
        if got_v != want_v:
            yield (f"C01:accessor:{name}", f"frame {o.hex()[:120]}: {name} = {got_v!r}, frame octets say {want_v!r}")
    if (obs["payload"] or b"") != (f.info or b""):
        yield ("C01:accessor:payload", f"frame {o.hex()[:120]}: payload = {obs['payload']!r}, frame octets say {f.info!r}")
