"""Frozen copy of the documented OBIS (C.D.E) -> common field name table and of the Kaifa positional layouts.

This is the specification side: it is deliberately a copy, so that an edit of
han/obis_map.py or of the tables in han/kaifa.py shows up as a difference.
"""
from __future__ import annotations

OBIS_NAMES = {
    "0.2.129": "list_ver_id",
    "96.1.0": "meter_id",
    "0.0.5": "meter_id",
    "96.1.7": "meter_type",
    "96.1.1": "meter_type",
    "1.0.0": "meter_datetime",
    "1.7.0": "active_power_import",
    "21.7.0": "active_power_import_l1",
    "41.7.0": "active_power_import_l2",
    "61.7.0": "active_power_import_l3",
    "2.7.0": "active_power_export",
    "22.7.0": "active_power_export_l1",
    "42.7.0": "active_power_export_l2",
    "62.7.0": "active_power_export_l3",
    "3.7.0": "reactive_power_import",
    "23.7.0": "reactive_power_import_l1",
    "43.7.0": "reactive_power_import_l2",
    "63.7.0": "reactive_power_import_l3",
    "4.7.0": "reactive_power_export",
    "24.7.0": "reactive_power_export_l1",
    "44.7.0": "reactive_power_export_l2",
    "64.7.0": "reactive_power_export_l3",
    "31.7.0": "current_l1",
    "51.7.0": "current_l2",
    "71.7.0": "current_l3",
    "32.7.0": "voltage_l1",
    "52.7.0": "voltage_l2",
    "72.7.0": "voltage_l3",
    "1.8.0": "active_power_import_total",
    "2.8.0": "active_power_export_total",
    "3.8.0": "reactive_power_import_total",
    "4.8.0": "reactive_power_export_total",
}

_K3 = [
    "list_ver_id", "meter_id", "meter_type",
    "active_power_import", "active_power_export", "reactive_power_import", "reactive_power_export",
    "current_l1", "current_l2", "current_l3", "voltage_l1", "voltage_l2", "voltage_l3",
    "meter_datetime",
    "active_power_import_total", "active_power_export_total", "reactive_power_import_total", "reactive_power_export_total",
]
_K1P = _K3[:8] + ["voltage_l1"]

# Kaifa positional layouts by list length (Norwegian HAN specification, Kaifa lists 1-3)
KAIFA_LAYOUTS = {
    1: ["active_power_import"],
    9: _K1P,
    13: _K3[:13],
    14: _K1P + _K3[13:],
    18: _K3,
}
KAIFA_STRING_FIELDS = {"list_ver_id", "meter_id", "meter_type"}
KAIFA_CURRENT_FIELDS = {"current_l1", "current_l2", "current_l3"}
KAIFA_VOLTAGE_FIELDS = {"voltage_l1", "voltage_l2", "voltage_l3"}


def cde(code: tuple) -> str:
    return f"{code[2]}.{code[3]}.{code[4]}"


def name_of(code: tuple) -> str:
    return OBIS_NAMES.get(cde(code), cde(code))
