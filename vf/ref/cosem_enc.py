"""Byte emitters for the COSEM/DLMS push messages of Aidon, Kaifa and Kamstrup meters.

Written from the COSEM blue book type tags and the vendors' published list
layouts; it does not import construct or the code under test. Every builder
returns the encoded bytes; the caller keeps the Python description it encoded
from and derives the expected dictionary from that description.
"""
from __future__ import annotations

import struct

TAG_NULL, TAG_ARRAY, TAG_STRUCT, TAG_U32, TAG_OCTETS, TAG_VISIBLE, TAG_I8, TAG_I16, TAG_U16, TAG_ENUM = 0, 1, 2, 6, 9, 10, 15, 16, 18, 22
UNIT_W, UNIT_VAR, UNIT_WH, UNIT_VARH, UNIT_A, UNIT_V = 27, 29, 30, 32, 33, 35

LLC = b"\xe6\xe7\x00"


def u32(v: int) -> bytes:
    return bytes((TAG_U32,)) + struct.pack(">I", v)


def i16(v: int) -> bytes:
    return bytes((TAG_I16,)) + struct.pack(">h", v)


def u16(v: int) -> bytes:
    return bytes((TAG_U16,)) + struct.pack(">H", v)


def number(kind: str, v: int) -> bytes:
    return {"u32": u32, "i16": i16, "u16": u16}[kind](v)


RANGES = {"u32": (0, 2**32 - 1), "i16": (-(2**15), 2**15 - 1), "u16": (0, 2**16 - 1)}


def octet_string(b: bytes) -> bytes:
    return bytes((TAG_OCTETS, len(b))) + b


def visible_string(s: str) -> bytes:
    b = s.encode("ascii")
    return bytes((TAG_VISIBLE, len(b))) + b


def obis_field(code: tuple) -> bytes:
    return bytes((TAG_OCTETS, 6)) + bytes(code)


def scaler_unit(exponent: int, unit: int) -> bytes:
    return bytes((TAG_STRUCT, 2, TAG_I8)) + struct.pack(">b", exponent) + bytes((TAG_ENUM, unit))


def datetime12(year, month, day, dow, hour, minute, second, hundredths, deviation, status) -> bytes:
    """12-octet COSEM date-time. hundredths None -> 0xFF, deviation None -> 0x8000."""
    dev = 0x8000 if deviation is None else deviation & 0xFFFF
    return struct.pack(">HBBBBBBBHB", year, month, day, dow, hour, minute, second, 0xFF if hundredths is None else hundredths, dev, status)


def datetime_octets(dt12: bytes) -> bytes:
    """date-time as a tagged octet string (09 0C ...)."""
    return bytes((TAG_OCTETS, 12)) + dt12


def apdu(body: bytes, dt12: bytes | None, tagged: bool = True, invoke: bytes = b"\x40\x00\x00\x00") -> bytes:
    """LLC + data-notification APDU header + body. dt12 None -> null date-time (single 00 octet)."""
    if dt12 is None:
        dt = b"\x00"
    elif tagged:
        dt = datetime_octets(dt12)
    else:
        dt = b"\x0c" + dt12
    return LLC + b"\x0f" + invoke + dt + body


# --------------------------------------------------------------------------- Aidon

def aidon_element(code: tuple, kind: str, value, exponent: int = 0, unit: int = UNIT_W) -> bytes:
    """kind: 'str' | 'datetime' (value = 12 octets) | 'u32' | 'i16' | 'u16'."""
    if kind == "str":
        return bytes((TAG_STRUCT, 2)) + obis_field(code) + visible_string(value)
    if kind == "datetime":
        return bytes((TAG_STRUCT, 2)) + obis_field(code) + datetime_octets(value)
    return bytes((TAG_STRUCT, 3)) + obis_field(code) + number(kind, value) + scaler_unit(exponent, unit)


def aidon_body(elements: list[bytes]) -> bytes:
    return bytes((TAG_ARRAY, len(elements))) + b"".join(elements)


# --------------------------------------------------------------------------- Kaifa

def kaifa_value_body(values: list[bytes]) -> bytes:
    """Positional list: structure of N bare values (each already encoded with its tag)."""
    return bytes((TAG_STRUCT, len(values))) + b"".join(values)


def kaifa_obis_body(pairs: list[tuple[tuple, bytes]]) -> bytes:
    """Swedish list: structure of 2N fields, alternating OBIS octet string and value."""
    return bytes((TAG_STRUCT, 2 * len(pairs))) + b"".join(obis_field(c) + v for c, v in pairs)


# ------------------------------------------------------------------------ Kamstrup

def kamstrup_body(list_version: str, pairs: list[tuple[tuple, bytes]], padding: list[int] | None = None) -> bytes:
    """structure(1 + 2N): list-version visible string, then OBIS + value pairs; padding[i] null octets after element i (0 = version)."""
    padding = padding or []
    out = bytes((TAG_STRUCT, 1 + 2 * len(pairs))) + visible_string(list_version)
    out += b"\x00" * (padding[0] if padding else 0)
    for i, (code, val) in enumerate(pairs):
        out += obis_field(code) + val
        if len(padding) > i + 1:
            out += b"\x00" * padding[i + 1]
    return out


def selftest() -> list[str]:
    """Rebuild captured messages published by the vendors (also used in the repository's tests) byte for byte."""
    fails = []
    # Aidon list 1
    got = apdu(aidon_body([aidon_element((1, 0, 1, 7, 0, 255), "u32", 0x118, 0, UNIT_W)]), None)
    want = bytes.fromhex("e6e7000f4000000000" "0101" "020309060100010700ff060000011802020f00161b")
    if got != want:
        fails.append(f"aidon list 1: {got.hex()} != {want.hex()}")
    # Kaifa list 1 with tagged APDU date-time 2019-02-04 (dow 1) 23:52:22, hundredths FF, deviation 8000, status 00
    dt = datetime12(2019, 2, 4, 1, 23, 52, 22, None, None, 0)
    got = apdu(kaifa_value_body([u32(0x16DC)]), dt, tagged=True)
    want = bytes.fromhex("e6e7000f40000000" "090c07e3020401173416ff800000" "0201" "06000016dc")
    if got != want:
        fails.append(f"kaifa list 1: {got.hex()} != {want.hex()}")
    # Kamstrup: untagged APDU date-time and a two-element list with null padding
    dt = datetime12(2022, 1, 17, 1, 12, 44, 40, None, None, 0)
    body = kamstrup_body("Kamstrup_V0001", [((1, 1, 31, 7, 0, 255), u32(0x380)), ((1, 1, 32, 7, 0, 255), u16(0xE1))], [0, 4, 4])
    want_body = bytes.fromhex("0205" "0a0e4b616d73747275705f5630303031" "090601011f0700ff0600000380" "00000000" "09060101200700ff1200e1" "00000000")
    if body != want_body:
        fails.append(f"kamstrup body: {body.hex()} != {want_body.hex()}")
    got = apdu(body, dt, tagged=False, invoke=b"\x00\x00\x00\x00")
    if not got.startswith(bytes.fromhex("e6e7000f000000000c07e60111010c2c28ff800000")):
        fails.append(f"kamstrup apdu header: {got[:24].hex()}")
    return fails
