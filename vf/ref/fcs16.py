"""RFC 1662 FCS-16, written bit by bit from the definition (no table).

Generator x^16 + x^12 + x^5 + 1, reflected (0x8408), initial register 0xFFFF,
transmitted FCS = one's complement of the register, low octet first.
"""
from __future__ import annotations

POLY = 0x8408


def step(reg: int, octet: int) -> int:
    """Advance the 16-bit register by one octet (LSB first)."""
    reg ^= octet
    for _ in range(8):
        if reg & 1:
            reg = (reg >> 1) ^ POLY
        else:
            reg >>= 1
    return reg


def register(data: bytes, reg: int = 0xFFFF) -> int:
    for b in data:
        reg = step(reg, b)
    return reg


def fcs(data: bytes) -> int:
    """The FCS value of data (complemented register)."""
    return register(data) ^ 0xFFFF


def trailer(data: bytes) -> bytes:
    """The two octets to append: low octet first."""
    v = fcs(data)
    return bytes((v & 0xFF, v >> 8))


def ends_with_good_fcs(msg: bytes) -> bool:
    return len(msg) >= 2 and trailer(msg[:-2]) == msg[-2:]


# ---- workload helper (not part of the definition): choose two octets that drive the register from s to t
_T = [step(0, i) for i in range(256)]
_HI = {v >> 8: i for i, v in enumerate(_T)}
assert len(_HI) == 256


def force(s: int, t: int) -> bytes:
    """The unique octet pair (a, b) with step(step(s, a), b) == t."""
    i2 = _HI[t >> 8]
    r1_hi = (t ^ _T[i2]) & 0xFF
    i1 = _HI[r1_hi]
    a = (s ^ i1) & 0xFF
    r1 = (s >> 8) ^ _T[i1]
    b = (r1 ^ i2) & 0xFF
    assert step(step(s, a), b) == t
    return bytes((a, b))


def fcs_fast(data: bytes) -> int:
    """Table-driven equivalent of fcs() for megabyte-sized inputs (the table is this module's own, built from step())."""
    reg = 0xFFFF
    t = _T
    for b in data:
        reg = (reg >> 8) ^ t[(reg ^ b) & 0xFF]
    return reg ^ 0xFFFF
