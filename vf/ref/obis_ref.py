"""OBIS code syntax from the statement of C20, independent of han/obis.py.

reduced form   [A-][B:]C.D[.E][*F]     six-part dotted form   A.B.C.D.E[.F]
"""
from __future__ import annotations

import re


def reduced(groups) -> str:
    a, b, c, d, e, f = groups
    s = ""
    if a is not None:
        s += f"{a}-"
    if b is not None:
        s += f"{b}:"
    s += f"{c}.{d}"
    if e is not None:
        s += f".{e}"
    if f is not None:
        s += f"*{f}"
    return s


def dotted(groups) -> str:
    return ".".join(str(g) for g in groups)


HAS_DIGIT_DOT_DIGIT = re.compile(r"\d\.\d")  # \d: any Unicode decimal digit - the statement says "digit", and int() reads them all


def must_raise(text: str) -> bool:
    """Strings with no digit-dot-digit sequence anywhere cannot contain an OBIS code."""
    return HAS_DIGIT_DOT_DIGIT.search(text) is None


def selftest() -> list[str]:
    fails = []
    if reduced((1, 0, 1, 8, 0, 255)) != "1-0:1.8.0*255":
        fails.append("obis_ref.reduced")
    if reduced((None, None, 1, 8, None, None)) != "1.8":
        fails.append("obis_ref.reduced minimal")
    if dotted((1, 0, 1, 8, 0, 255)) != "1.0.1.8.0.255":
        fails.append("obis_ref.dotted")
    if not must_raise("abc") or must_raise("x1.2y"):
        fails.append("obis_ref.must_raise")
    return fails
