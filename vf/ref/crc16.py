"""CRC-16/ARC bit-serial: polynomial 0xA001 (reflected 0x8005), initial value 0."""
from __future__ import annotations


def crc16(data: bytes, crc: int = 0) -> int:
    for b in data:
        for i in range(8):
            bit = ((b >> i) & 1) ^ (crc & 1)
            crc >>= 1
            if bit:
                crc ^= 0xA001
    return crc
