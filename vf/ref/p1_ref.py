"""Independent model of IEC 62056-21 mode D readouts as used on the P1 port.

  /XXXZ[\\W..]Ident CR LF  [CR LF]  data lines  ! [CRC16 as 4 hex digits] CR LF

The builders remember what they emitted, so that the expected parse result never
comes from the code under test.
"""
from __future__ import annotations

import re
from fractions import Fraction

from vf.ref import crc16

ID_CHARS = [chr(c) for c in range(0x20, 0x7F) if chr(c) not in "/!"]
WORD = "abcdefghijklmnopqrstuvwxyzABCDEFGHIJKLMNOPQRSTUVWXYZ0123456789_"
LIBERAL_IDENT = re.compile(rb"^/[A-Za-z]{3}[0-9][ -~]{0,48}$")
HEX4 = re.compile(rb"^[0-9A-Fa-f]{4}$")


def strict_ident(rng, with_id: bool = True) -> tuple[bytes, str, str | None]:
    """(line without EOL, manufacturer id, identification or None) accepted by the standard."""
    if rng.random() < 0.4:
        # FLAG manufacturer ids that exist (a decoder may special-case a manufacturer)
        man = rng.choice(("ISK", "ISk", "KAM", "LGF", "XMX", "ELL", "KFM", "AUX", "EMH", "SAG", "ENE", "ADN", "KMP", "ITR", "ZPA"))
    else:
        man = rng.choice("ABCDEFGHIJKLMNOPQRSTUVWXYZ") + rng.choice("ABCDEFGHIJKLMNOPQRSTUVWXYZ") + rng.choice(
            "ABCDEFGHIJKLMNOPQRSTUVWXYZabcdefghijklmnopqrstuvwxyz"
        )
    baud = str(rng.randrange(10))
    esc = "".join("\\" + rng.choice(WORD) for _ in range(rng.choice((0, 0, 0, 1, 2))))
    ident = None
    if with_id:
        n = rng.randint(1, 16)
        while True:
            ident = "".join(rng.choice(ID_CHARS) for _ in range(n))
            # no leading/trailing blank (the line is stripped), and it must not itself start like another escape
            if ident[0] != " " and ident[-1] != " " and not (ident[0] == "\\" and len(ident) > 1 and ident[1] in WORD):
                break
    line = "/" + man + baud + esc + (ident or "")
    return line.encode("ascii"), man, ident


def is_liberal_ident(first_line: bytes) -> bool:
    # what str.strip() removes from ASCII text (a decoder that strips the decoded line loses these too)
    return bool(LIBERAL_IDENT.match(first_line.strip(b" \t\n\r\x0b\x0c\x1c\x1d\x1e\x1f")))


def build_readout(ident_line: bytes, data_lines: list[bytes], eol: bytes = b"\r\n", checksum="correct",
                  blank_after_ident: bool = True) -> bytes:
    """checksum: 'correct' | None (no checksum) | bytes (text to put after '!')."""
    body = ident_line + eol
    if blank_after_ident:
        body += eol
    for ln in data_lines:
        body += ln + eol
    body += b"!"
    if checksum == "correct":
        tail = b"%04X" % crc16.crc16(body)
    elif checksum is None:
        tail = b""
    else:
        tail = checksum
    return body + tail + eol


def split_readout(r: bytes, end: int | None = None):
    """(first line, payload, tail-after-'!') for end character position `end` (default: first '!')."""
    if end is None:
        end = r.find(b"!")
    lf = r.find(b"\n")
    first = r[: lf + 1] if lf >= 0 else r
    payload = r[lf + 1 : end]
    return first, payload, r[end + 1 :]


def checksum_verdicts(r: bytes) -> list[str]:
    """For every '!' in r taken as the end character: 'none' | 'ok' | 'bad' | 'not-a-checksum'."""
    out = []
    for e in [i for i, b in enumerate(r) if b == 0x21]:
        tail = r[e + 1 :].strip()
        if not tail:
            out.append("none")
        elif HEX4.match(tail):
            out.append("ok" if int(tail, 16) == crc16.crc16(r[: e + 1]) else "bad")
        else:
            out.append("not-a-checksum")
    return out


# ----------------------------------------------------------------------------- data blocks

UNITS_K = ["kW", "kWh", "kvar", "kvarh"]
UNITS_PLAIN = ["V", "A", "var", "varh"]
UNITS_OTHER = ["m3", "Hz", "s", "GJ", "%",
               # near misses of the eight units that are converted: another prefix, the prefix on another base unit, no prefix at all
               "kV", "kA", "KV", "Ka", "mA", "mV", "MW", "MWh", "GWh", "W", "Wh", "w", "wh", "kVA", "kVAh", "VA", "VAh", "kvah", "Mvar", "kvar/h", "kW/h", "kWh/h",
               "k", "kk", "kkW", "VV", "AA", "V/A", "MJ", "l", "dm3", "K", "bar", "min"]


def random_case(rng, s: str) -> str:
    return "".join(ch.upper() if rng.random() < 0.5 else ch.lower() for ch in s)


def decimal_text(rng, max_int_digits: int = 10) -> str:
    nd = rng.choice((0, 1, 2, 3, 3))
    ni = rng.choice((1, 1, 2, 3, 4, 6, max_int_digits))
    ip = "".join(rng.choice("0123456789") for _ in range(ni))
    ip = "0" * rng.choice((0, 0, 1, 3, 8, 14, 20)) + ip
    return ip + ("." + "".join(rng.choice("0123456789") for _ in range(nd)) if nd else "")


def reduced_address(rng, groups=None) -> tuple[str, tuple]:
    """Reduced OBIS address text with E present; returns (text, (A,B,C,D,E,F))."""
    if groups is None:
        a = rng.choice((None, 0, 1, rng.randrange(256)))
        b = rng.choice((None, 0, 1, rng.randrange(256)))
        c, d, e = rng.randrange(256), rng.randrange(256), rng.randrange(256)
        f = rng.choice((None, None, 255, rng.randrange(256)))
        groups = (a, b, c, d, e, f)
    a, b, c, d, e, f = groups
    s = ""
    if a is not None:
        s += f"{a}-"
    if b is not None:
        s += f"{b}:"
    s += f"{c}.{d}.{e}"
    if f is not None:
        s += f"*{f}"
    return s, groups


def datetime_text(rng):
    import datetime

    dt = datetime.datetime(2000 + rng.randrange(100), rng.randint(1, 12), 1, rng.randrange(24), rng.randrange(60), rng.randrange(60))
    dt = dt.replace(day=rng.randint(1, 28))
    if rng.random() < 0.15:
        # the nights in which European / American / Australian clocks are changed (the transmitted local time is to come back as sent)
        y, mo, d = rng.choice(((2027, 3, 28), (2026, 3, 29), (2026, 10, 25), (2026, 3, 8), (2026, 11, 1), (2026, 10, 4), (2026, 4, 5)))
        dt = datetime.datetime(y, mo, d, rng.choice((1, 2, 2, 3)), rng.choice((0, 15, 30, 59)), rng.randrange(60))
    return dt.strftime("%y%m%d%H%M%S") + rng.choice(("", "W", "S")), dt


def expected_decode(cde: str, value: str, unit: str | None, names: dict, dt=None):
    """(key, kind, payload) - kind in exact/floor1000/verbatim/datetime."""
    key = names.get(cde, cde)
    u = unit.lower() if unit else None
    if u in ("v", "a", "var", "varh"):
        return key, "float", float(Fraction(value))
    if u in ("kw", "kwh", "kvar", "kvarh"):
        return key, "floor1000", Fraction(value) * 1000
    if cde == "1.0.0":
        return key, "datetime", dt
    return key, "verbatim", value
