"""Independent model of the HDLC frame layout used by DLMS (ISO/IEC 13239 type 3).

  format(2) | destination(1..4) | source(1..4) | control(1) | [HCS(2) | info] | FCS(2)

format = type(4 bits) | segmentation(1) | length(11), length counting every
octet between the flags. Address octets have the low bit 0 when another
address octet follows and 1 on the last one. A frame without information field
has no HCS, only the FCS. Nothing here imports the code under test.
"""
from __future__ import annotations

from dataclasses import dataclass

from vf.ref import fcs16

FLAG = 0x7E
ESC = 0x7D
MAX_LEN = 2047


@dataclass
class Fields:
    format_type: int
    segmentation: bool
    length: int
    destination: bytes
    source: bytes
    control: int
    hcs: bytes  # the two octets after control (equal to the FCS for header-only frames)
    info: bytes | None  # None = no information field
    fcs: bytes


def address(rng, n_octets: int) -> bytes:
    """Random address of exactly n octets (extension bit per ISO 13239 4.7.1)."""
    out = bytearray()
    for i in range(n_octets):
        v = rng.randrange(128) << 1
        out.append(v | (1 if i == n_octets - 1 else 0))
    return bytes(out)


def build(format_type: int, segmentation: bool, dst: bytes, src: bytes, control: int, info: bytes) -> bytes:
    """Octets of a well-formed frame (without flags, unstuffed)."""
    header_len = 2 + len(dst) + len(src) + 1
    total = header_len + 2 + (len(info) + 2 if info else 0)
    if total > MAX_LEN:
        raise ValueError("frame too long")
    fmt = ((format_type & 0xF) << 12) | ((1 if segmentation else 0) << 11) | total
    header = bytes((fmt >> 8, fmt & 0xFF)) + dst + src + bytes((control,))
    out = header + fcs16.trailer(header)
    if info:
        out += info
        out += fcs16.trailer(out)
    return out


def max_info_len(dst_len: int, src_len: int) -> int:
    return MAX_LEN - (2 + dst_len + src_len + 1 + 2 + 2)


def parse(octets: bytes) -> Fields | None:
    """Field split of a complete frame by the extension-bit rule; None if it does not fit."""
    n = len(octets)
    if n < 2:
        return None
    fmt = (octets[0] << 8) | octets[1]
    pos = 2
    addrs = []
    for _ in range(2):
        start = pos
        while True:
            if pos >= n:
                return None
            last = octets[pos] & 1
            pos += 1
            if last:
                break
        addrs.append(bytes(octets[start:pos]))
    if pos >= n:
        return None
    control = octets[pos]
    if n < pos + 3:
        return None
    hcs = bytes(octets[pos + 1 : pos + 3])
    info = bytes(octets[pos + 3 : n - 2]) if n > pos + 3 else None
    return Fields(
        format_type=fmt >> 12,
        segmentation=bool((fmt >> 11) & 1),
        length=fmt & 0x7FF,
        destination=addrs[0],
        source=addrs[1],
        control=control,
        hcs=hcs,
        info=info,
        fcs=bytes(octets[-2:]),
    )


def is_intact(octets: bytes) -> bool:
    """Length field equals octet count and the FCS over all but the last two matches them."""
    if len(octets) < 2:
        return False
    if ((octets[0] << 8) | octets[1]) & 0x7FF != len(octets):
        return False
    return fcs16.ends_with_good_fcs(octets)


def stuff(octets: bytes) -> bytes:
    out = bytearray()
    for b in octets:
        if b in (FLAG, ESC):
            out.append(ESC)
            out.append(b ^ 0x20)
        else:
            out.append(b)
    return bytes(out)


def unstuff(segment: bytes) -> bytes:
    """Undo octet stuffing inside one flag-delimited segment; a dangling escape is dropped."""
    out = bytearray()
    esc = False
    for b in segment:
        if esc:
            out.append(b ^ 0x20)
            esc = False
        elif b == ESC:
            esc = True
        else:
            out.append(b)
    return bytes(out)


def segments(stream: bytes) -> list[tuple[int, int]]:
    """(start, end) of every maximal flag-free run that has a flag on both sides."""
    flags = [i for i, b in enumerate(stream) if b == FLAG]
    out = []
    for a, b in zip(flags, flags[1:]):
        if b > a + 1:
            out.append((a + 1, b))
    return out


def embedded_stuffed(stream: bytes, frames: list[bytes]) -> int | None:
    """Index of the first frame that is not an in-order, use-once un-stuffed segment; None if all fit."""
    segs = segments(stream)
    si = 0
    for fi, f in enumerate(frames):
        while si < len(segs):
            a, b = segs[si]
            si += 1
            seg = stream[a:b]
            if unstuff(seg) == f:
                break
        else:
            return fi
    return None


def embedded_plain(stream: bytes, frames: list[bytes]) -> int | None:
    """Leftmost in-order non-overlapping occurrences of FLAG+frame+FLAG (closing flag may be shared)."""
    pos = 0
    for fi, f in enumerate(frames):
        pat = bytes((FLAG,)) + f + bytes((FLAG,))
        at = stream.find(pat, pos)
        if at < 0:
            return fi
        pos = at + len(pat) - 1
    return None
