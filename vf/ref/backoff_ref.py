"""min(2^(n-1), max_delay) after n failures since the last reset; 0 when n == 0."""
from __future__ import annotations


def delay(n_failures: int, max_delay: int) -> int:
    if n_failures <= 0:
        return 0
    return min(2 ** (n_failures - 1), max_delay)
