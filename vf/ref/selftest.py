"""Self-test of the reference models against published vectors (run by setup.sh)."""
from __future__ import annotations

import sys


def main() -> int:
    from vf.ref import backoff_ref, crc16, fcs16, hdlc_ref

    failures = []

    def expect(name, got, want):
        if got != want:
            failures.append(f"{name}: got {got!r}, want {want!r}")

    expect("FCS-16('123456789')", fcs16.fcs(b"123456789"), 0x906E)  # CRC-16/X-25 check value
    expect("fcs_fast == fcs", [fcs16.fcs_fast(bytes(range(n)) * 3) for n in (0, 1, 7, 200)], [fcs16.fcs(bytes(range(n)) * 3) for n in (0, 1, 7, 200)])
    expect("FCS good residue", fcs16.register(b"123456789" + fcs16.trailer(b"123456789")), 0xF0B8)
    expect("CRC-16/ARC('123456789')", crc16.crc16(b"123456789"), 0xBB3D)
    # captured frames from the DLMS documentation (also in the repository's tests)
    for hx in ("a00801020110378d", "a00C0102011027a00201e7de"):
        fr = bytes.fromhex(hx)
        expect(f"is_intact({hx})", hdlc_ref.is_intact(fr), True)
        f = hdlc_ref.parse(fr)
        expect(f"rebuild({hx})", hdlc_ref.build(f.format_type, f.segmentation, f.destination, f.source, f.control, f.info or b""), fr)
    expect("unstuff", hdlc_ref.unstuff(bytes.fromhex("a07d5e7d5d01")), bytes.fromhex("a07e7d01"))
    expect("stuff", hdlc_ref.stuff(bytes.fromhex("a07e7d01")), bytes.fromhex("a07d5e7d5d01"))
    expect("backoff", [backoff_ref.delay(n, 60) for n in range(9)], [0, 1, 2, 4, 8, 16, 32, 60, 60])
    for extra in ("p1_ref", "cosem_enc", "obis_ref"):
        try:
            mod = __import__(f"vf.ref.{extra}", fromlist=["selftest"])
        except ImportError:
            continue
        if hasattr(mod, "selftest"):
            failures.extend(mod.selftest())
    if failures:
        for f in failures:
            print("REFERENCE MODEL SELF-TEST FAILED:", f)
        return 1
    print("reference models: self-test passed")
    return 0


if __name__ == "__main__":
    sys.exit(main())
