"""Pairs of different inputs that a cheap digest cannot tell apart.

A cache, an interning table or a duplicate filter keyed by a 32-bit digest of the input (CRC-32, Adler-32) behaves perfectly on every
random and every hand-picked input: two *different* inputs with the same digest meet with probability 2^-32.  Such pairs can be made
on purpose, and the monitors then feed the two members one after the other:

linear_twin   the digest is affine over GF(2) in the free bits (every CRC is; the message may itself be an affine function of the free
              octets, e.g. an HDLC frame whose check sequences are recomputed): solve for a non-zero set of bit flips that leaves the
              digest unchanged (Gaussian elimination on 32-bit vectors, needs > 32 free bits);
birthday      the input alphabet is restricted (decimal text, OBIS strings, registers whose expectations the generator must know):
              draw candidates until two share a digest (about 2^16.5 draws for a 32-bit digest);
adler_twin    +1 -2 +1 on three neighbouring octets keeps both Adler sums;
permuted_twin two different octets swapped: same length, sum, xor and multiset.

Every pair is verified with the digest itself before it is returned; None means "no pair for this input" (the caller counts it).
"""
from __future__ import annotations

import zlib


def crc32(b: bytes) -> int:
    return zlib.crc32(b) & 0xFFFFFFFF


def adler32(b: bytes) -> int:
    return zlib.adler32(b) & 0xFFFFFFFF


def linear_twin(free: bytes, rng, build=None, digest=crc32, max_bits: int = 96):
    """Another value of the free octets whose built message has the same digest and length, or None.

    build(free octets) -> message must be affine over GF(2) (identity when None); at most max_bits of the free bits are used."""
    build = build or (lambda b: bytes(b))
    n = len(free) * 8
    if n < 34:
        return None
    base_msg = build(free)
    base = digest(base_msg)
    positions = rng.sample(range(n), min(n, max_bits))
    basis: dict[int, tuple[int, int]] = {}  # leading bit -> (vector, combination mask over `positions`)
    for k, pos in enumerate(positions):
        flipped = bytearray(free)
        flipped[pos // 8] ^= 1 << (pos % 8)
        msg = build(bytes(flipped))
        if len(msg) != len(base_msg):
            return None
        vec, comb = digest(msg) ^ base, 1 << k
        while vec:
            lead = vec.bit_length() - 1
            if lead not in basis:
                basis[lead] = (vec, comb)
                break
            bv, bc = basis[lead]
            vec ^= bv
            comb ^= bc
        else:
            # the flips in `comb` cancel each other in the digest
            twin = bytearray(free)
            for j, p in enumerate(positions):
                if comb >> j & 1:
                    twin[p // 8] ^= 1 << (p % 8)
            twin = bytes(twin)
            if twin != free and digest(build(twin)) == base:
                return twin
            return None
    return None


def birthday(make, digest=crc32, limit: int = 600_000):
    """make(i) -> bytes for i = 0, 1, ...: the first two indices whose (different) bytes share a digest, or None."""
    seen: dict[int, int] = {}
    for i in range(limit):
        b = make(i)
        d = digest(b)
        j = seen.get(d)
        if j is not None:
            if make(j) != b:
                return j, i
        else:
            seen[d] = i
    return None


def adler_twin(data: bytes, rng):
    cands = [p for p in range(len(data) - 2) if data[p] < 255 and data[p + 1] >= 2 and data[p + 2] < 255]
    if not cands:
        return None
    p = rng.choice(cands)
    b = bytearray(data)
    b[p] += 1
    b[p + 1] -= 2
    b[p + 2] += 1
    b = bytes(b)
    return b if adler32(b) == adler32(data) else None


def permuted_twin(data: bytes, rng):
    if len(set(data)) < 2:
        return None
    for _ in range(20):
        i, j = rng.randrange(len(data)), rng.randrange(len(data))
        if data[i] != data[j]:
            b = bytearray(data)
            b[i], b[j] = b[j], b[i]
            return bytes(b)
    return None


def twins(data: bytes, rng):
    """[(kind, other)] for every construction that applies to the raw octets."""
    out = []
    for kind, fn in (("crc32", lambda: linear_twin(data, rng)), ("adler32", lambda: adler_twin(data, rng)), ("permuted", lambda: permuted_twin(data, rng))):
        t = fn()
        if t is not None and t != data:
            out.append((kind, t))
    return out
