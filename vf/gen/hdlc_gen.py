"""Workload generator for HDLC streams: well-formed frames, corruptions, noise."""
from __future__ import annotations

from vf.ref import fcs16, hdlc_ref

FLAG = 0x7E
ESC = 0x7D
CONFIGS = [(False, False), (False, True), (True, False), (True, True)]  # (stuffing, abort)
DENSE = bytes((0x7E, 0x7D, 0x5E, 0x5D, 0x00))


class IdSource:
    """Unique 6-octet ids so that a duplicated frame cannot hide behind equal payloads."""

    def __init__(self, rng):
        self.n = rng.randrange(1 << 20)

    def next(self, allow_special: bool = True) -> bytes:
        self.n += 1
        # 0xC0.. prefix keeps ids free of flag/escape octets: n is spread over 7 bits per octet
        v = self.n
        out = bytearray()
        for _ in range(6):
            out.append(0x80 | (v & 0x3F))
            v >>= 6
        return bytes(out)


def info_bytes(rng, n: int, dense: bool) -> bytes:
    if n == 0:
        return b""
    if dense:
        return bytes(rng.choice(DENSE) if rng.random() < 0.6 else rng.randrange(256) for _ in range(n))
    return rng.randbytes(n)


def info_length(rng, dst_len: int, src_len: int) -> int:
    mx = hdlc_ref.max_info_len(dst_len, src_len)
    r = rng.random()
    if r < 0.12:
        return 0
    if r < 0.30:
        return rng.choice((1, 2, 3, 6, 7))
    if r < 0.85:
        return rng.randint(6, 120)
    if r < 0.93:
        return rng.choice((mx, mx - 1, mx - 2))
    return rng.randint(120, mx)


def good_frame(rng, ids: IdSource | None = None, dense: bool | None = None, max_info: int | None = None,
               want_info: bool | None = None) -> tuple[bytes, dict]:
    """A well-formed frame; returns (octets, description)."""
    # (addresses are 'recursively extended': one, two and four octets are what DLMS uses, the format itself allows any length)
    dl = rng.choice((1, 1, 1, 2, 2, 3, 4)) if rng.random() > 0.04 else rng.choice((5, 6, 8))
    sl = rng.choice((1, 1, 1, 2, 2, 3, 4)) if rng.random() > 0.04 else rng.choice((5, 6, 8))
    dst = hdlc_ref.address(rng, dl)
    src = hdlc_ref.address(rng, sl)
    ctrl = rng.randrange(256)
    ftype = rng.choice((0xA, 0xA, 0xA, rng.randrange(16)))
    seg = rng.random() < 0.2
    n = info_length(rng, dl, sl)
    if want_info is True and n == 0:
        n = rng.randint(6, 40)
    if want_info is False:
        n = 0
    if max_info is not None:
        n = min(n, max_info)
    if dense is None:
        dense = rng.random() < 0.5
    info = info_bytes(rng, n, dense)
    if ids is not None and n >= 6:
        info = ids.next() + info[6:]
    octets = hdlc_ref.build(ftype, seg, dst, src, ctrl, info)
    desc = {"type": ftype, "seg": seg, "dst": dst, "src": src, "ctrl": ctrl, "info": info}
    return octets, desc


def sibling(rng, desc: dict, ids: IdSource | None = None):
    """A well-formed frame that looks like the one described by desc at its start - same format / length field, same first address
    octets - but is laid out differently: one address is longer or shorter (the information field absorbs the difference), so
    control, HCS and information sit at other offsets.  Returns (octets, description) or None when no such frame exists."""
    dst, src, info = desc["dst"], desc["src"], desc["info"] or b""
    which = rng.choice(("src", "src", "dst"))
    old = src if which == "src" else dst
    options = [n for n in (1, 2, 3, 4) if n != len(old) and (n == 1) == (len(old) == 1)] if len(old) > 1 else []
    if not options:
        # a one-octet address has its extension bit set: the sibling keeps the other address and varies this one's *value* only
        return None
    n_new = rng.choice(options)
    new_info_len = len(info) - (n_new - len(old))
    if not info or new_info_len < 1:
        return None
    # same leading octet (even: 'more octets follow'), fresh remaining octets, last one odd
    tail = bytearray(hdlc_ref.address(rng, n_new)[1:]) if n_new > 1 else bytearray()
    new_addr = bytes(old[:1]) + bytes(tail)
    new_info = info_bytes(rng, new_info_len, rng.random() < 0.5)
    if ids is not None and new_info_len >= 6:
        new_info = ids.next() + new_info[6:]
    d2 = dict(desc, info=new_info, ctrl=rng.choice((desc["ctrl"], rng.randrange(256))))
    d2["src" if which == "src" else "dst"] = new_addr
    try:
        octets = hdlc_ref.build(d2["type"], d2["seg"], d2["dst"], d2["src"], d2["ctrl"], new_info)
    except ValueError:
        return None
    return octets, d2


def layout_mimic(rng, desc: dict, ids: IdSource | None = None):
    """After a run of frames with one-octet addresses: a frame with the same destination and a four-octet source address whose octets
    at the *old* header-check position are exactly the check sequence of the octets before them - it reads as a complete, correct
    header under the layout of its predecessors although its own header is longer.  (octets, description) or None."""
    from vf.ref import fcs16

    if len(desc["dst"]) != 1 or len(desc["src"]) != 1:
        return None
    n_info = rng.randint(8, 40)
    total = 2 + 1 + 4 + 1 + 2 + n_info + 2
    fmt = ((desc["type"] & 0xF) << 12) | total
    head = bytes((fmt >> 8, fmt & 0xFF)) + desc["dst"]
    for _ in range(400):
        s0, s1 = rng.randrange(128) << 1, rng.randrange(128) << 1
        t = fcs16.trailer(head + bytes((s0, s1)))
        if t[0] % 2 == 0 and t[1] % 2 == 1:
            src = bytes((s0, s1, t[0], t[1]))
            info = info_bytes(rng, n_info, False)
            if ids is not None:
                info = ids.next() + info[6:]
            d2 = dict(desc, src=src, info=info, seg=False, ctrl=rng.randrange(256))
            return hdlc_ref.build(d2["type"], False, d2["dst"], src, d2["ctrl"], info), d2
    return None


def digest_twin(rng, desc: dict):
    """Another well-formed frame with the same header, the same length and the same CRC-32 over all its octets (check sequences
    recomputed) - only information octets differ.  (octets, description) or None."""
    from vf.gen import collide

    info = desc["info"] or b""
    if len(info) < 5:
        return None
    build = lambda i: hdlc_ref.build(desc["type"], desc["seg"], desc["dst"], desc["src"], desc["ctrl"], i)
    other = collide.linear_twin(info, rng, build)
    if other is None:
        return None
    return build(other), dict(desc, info=other)


def header_octets(octets: bytes) -> bytes:
    """format, addresses, control and HCS of a well-formed frame."""
    f = hdlc_ref.parse(octets)
    n = 2 + len(f.destination) + len(f.source) + 1 + 2
    return octets[:n]


def in_plain_domain(octets: bytes, abort: bool) -> bool:
    """C02's domain for readers without octet stuffing."""
    if FLAG in header_octets(octets):
        return False
    if abort:
        if bytes((ESC, FLAG)) in octets or octets[-1] == ESC:
            return False
    return True


def corrupt(rng, octets: bytes) -> tuple[bytes, str]:
    """A damaged variant of a well-formed frame; returns (octets, class)."""
    kind = rng.choice(("bitflip", "truncate", "truncate_after_hcs", "extra", "wrong_length", "swap_fcs", "header_only_cut", "invert_fcs", "invert_hcs_and_fcs", "fcs_plus_one", "tiny_length", "short_length_good_fcs_then_more", "wrong_hcs_fcs_recomputed"))
    b = bytearray(octets)
    if kind == "wrong_hcs_fcs_recomputed":
        # the header check sequence is wrong, the frame check sequence is right for the octets as they are: length and FCS are what
        # validity is defined by
        f = hdlc_ref.parse(octets)
        if f is not None and f.info:
            hl = 2 + len(f.destination) + len(f.source) + 1
            b[hl + rng.randrange(2)] ^= 1 << rng.randrange(8)
            body = bytes(b[:-2])
            return body + fcs16_trailer(body), kind
        kind = "bitflip"
    if kind == "short_length_good_fcs_then_more":
        # the length field announces fewer octets than the frame has, every check sequence is right for the octets that are there, and
        # more octets follow before the flag: the running FCS is 'good' at a place where the frame neither ends nor should end
        f = hdlc_ref.parse(octets)
        if f.info:
            full = hdlc_ref.build(f.format_type, f.segmentation, f.destination, f.source, f.control, f.info)
            hl = 2 + len(f.destination) + len(f.source) + 1
            short = max(hl + 2, len(full) - rng.randint(1, 8))
            fmt = ((f.format_type & 0xF) << 12) | ((1 if f.segmentation else 0) << 11) | short
            header = bytes((fmt >> 8, fmt & 0xFF)) + full[2:hl]
            body = header + fcs16_trailer(header) + f.info
            body += fcs16_trailer(body)
            more = bytes(x if x not in (FLAG, ESC) else 0x11 for x in rng.randbytes(rng.randint(1, 12)))
            return body + more, kind
        kind = "bitflip"
    if kind == "bitflip":
        i = rng.randrange(len(b))
        b[i] ^= 1 << rng.randrange(8)
    elif kind == "truncate":
        b = b[: rng.randrange(1, len(b))]
    elif kind == "truncate_after_hcs":
        b = bytearray(header_octets(octets))
    elif kind == "header_only_cut":
        h = header_octets(octets)
        b = bytearray(h[: max(1, len(h) - rng.randint(1, 3))])
    elif kind == "extra":
        b += rng.randbytes(rng.randint(1, 4))
    elif kind == "tiny_length":
        # length field below the size of the header itself, every check sequence correct
        f = hdlc_ref.parse(octets)
        fmt = (f.format_type << 12) | (int(f.segmentation) << 11) | rng.randint(0, 6)
        header = bytes((fmt >> 8, fmt & 0xFF)) + f.destination + f.source + bytes((f.control,))
        out = header + fcs16.trailer(header)
        if f.info:
            out += f.info
            out += fcs16.trailer(out)
        b = bytearray(out)
    elif kind == "wrong_length":
        # wrong length field, HCS and FCS recomputed so that only the length betrays it
        f = hdlc_ref.parse(octets)
        wrong = (f.length + rng.choice((-2, -1, 1, 2, 7))) & 0x7FF
        fmt = (f.format_type << 12) | (int(f.segmentation) << 11) | wrong
        header = bytes((fmt >> 8, fmt & 0xFF)) + f.destination + f.source + bytes((f.control,))
        out = header + fcs16.trailer(header)
        if f.info:
            out += f.info
            out += fcs16.trailer(out)
        b = bytearray(out)
    elif kind == "invert_fcs":
        # the check sequence of a sender that forgot the final one's complement
        b[-2] ^= 0xFF
        b[-1] ^= 0xFF
    elif kind == "invert_hcs_and_fcs":
        f = hdlc_ref.parse(octets)
        n_h = 2 + len(f.destination) + len(f.source) + 1
        if f.info:
            b[n_h] ^= 0xFF
            b[n_h + 1] ^= 0xFF
            tr = fcs16.trailer(bytes(b[:-2]))
            b[-2], b[-1] = tr[0] ^ 0xFF, tr[1] ^ 0xFF
        else:
            b[-2] ^= 0xFF
            b[-1] ^= 0xFF
    elif kind == "fcs_plus_one":
        v = ((b[-2] | (b[-1] << 8)) + 1) & 0xFFFF
        b[-2], b[-1] = v & 0xFF, v >> 8
    elif kind == "swap_fcs":
        b[-1], b[-2] = b[-2], b[-1]
        if b[-1] == b[-2]:
            b[-1] ^= 0xFF
    return bytes(b), kind


def fcs16_trailer(octets: bytes) -> bytes:
    from vf.ref import fcs16

    return fcs16.trailer(octets)


def noise(rng, n: int, flavour: str | None = None) -> tuple[bytes, str]:
    flavour = flavour or rng.choice(("random", "dense", "lookalike", "abort", "flagfree", "esc_end", "idle_line", "length_sweep", "short_then_overlong", "abort_after_header"))
    if flavour == "abort_after_header":
        # a frame that is aborted (7D 7E) after its complete, correct header - and possibly some of its information field
        fr, _d = good_frame(rng, None, max_info=40, want_info=True)
        h = header_octets(fr)
        return bytes((FLAG,)) + h + fr[len(h) : len(h) + rng.choice((0, 0, 1, 5))] + bytes((ESC, FLAG)) + rng.choice((b"", bytes((FLAG,)))), flavour
    if flavour == "short_then_overlong":
        # a frame that a flag discards (too short / aborted) directly followed by one that grows beyond the maximum length
        first = rng.choice((b"\x7e\xa0\x7e", b"\x7e\xa0\x0a\x01\x7e", b"\x7e\xa0\x0a\x01\x02\x01\x7d\x7e", b"\x7e\x7e\xa0\x7e"))
        body = bytes(b if b not in (FLAG, ESC) else 0x12 for b in rng.randbytes(rng.choice((2040, 2050, 2300))))
        return first + b"\xa0\x2a\x41\x08\x83\x13" + body + b"\x7e", flavour
    if flavour == "length_sweep":
        # a header with correct check sequence whose length field is small - below, at and just above the size of the header itself
        # (so that the announced information field has -2, 0, 1, 2 ... octets) - followed by more octets than any frame may have
        dst = hdlc_ref.address(rng, rng.choice((1, 1, 2, 4)))
        src = hdlc_ref.address(rng, rng.choice((1, 1, 2, 4)))
        hlen = 2 + len(dst) + len(src) + 1 + 2
        length = rng.choice((hlen - 2, hlen - 1, hlen, hlen + 1, hlen + 2, hlen + 3, hlen + 4, rng.randint(0, 40)))
        header = bytes((0xA0 | rng.choice((0, 0, 8)), length & 0xFF)) + dst + src + bytes((rng.randrange(256),))
        body = bytes(b if b != FLAG else 0x7F for b in rng.randbytes(rng.choice((5, 60, 2050, 2100, 2300))))
        return bytes((FLAG,)) + header + fcs16_trailer(header) + body + rng.choice((b"", bytes((FLAG,)))), flavour
    if flavour == "idle_line":
        # well-formed frames with idle / break characters between them (mark idle 0xFF, NUL, flow control) instead of - or next to - flags
        out = b""
        for _ in range(rng.randint(1, 4)):
            fr, _d = good_frame(rng, None, max_info=30)
            k = rng.choice((1, 2, 8, 40))
            g = rng.choice((b"\xff" * k, b"\x00" * k, b"\x11\x13" * k, b"", bytes(rng.choice(b"\x00\xff\x7e\x11") for _ in range(k))))
            out += g + b"\x7e" + on_wire(fr, rng.random() < 0.5) + rng.choice((b"\x7e", b"", b"\x7e\x7e"))
        return out + rng.choice((b"", b"\x00" * 5, b"\xff" * 5)), flavour
    if flavour == "random":
        out = rng.randbytes(n)
    elif flavour == "dense":
        out = bytes(rng.choice(DENSE) if rng.random() < 0.5 else rng.randrange(256) for _ in range(n))
    elif flavour == "lookalike":
        out = bytes((FLAG, 0xA0 | rng.randrange(8), rng.randrange(256), 0x01, 0x03)) + rng.randbytes(n)
    elif flavour == "abort":
        out = bytes((FLAG,)) + rng.randbytes(max(8, n)) .replace(b"\x7e", b"\x00") + bytes((ESC, FLAG))
    elif flavour == "flagfree":
        out = rng.randbytes(n).replace(b"\x7e", b"\x7f")
    else:  # esc_end
        out = rng.randbytes(n) + bytes((ESC,))
    return out, flavour


def on_wire(octets: bytes, stuffing: bool) -> bytes:
    return hdlc_ref.stuff(octets) if stuffing else octets


def special_frame(rng, ids: IdSource | None = None, kind: str | None = None) -> tuple[bytes, dict, str]:
    """Well-formed frames at the boundary values of the check sequences (zero / all ones / flag / escape octets) and of the
    running FCS register (0x0000 in the middle of the information field), and near-maximum frames dense in flag/escape octets."""
    kind = kind or rng.choice(("hcs_zero", "hcs_flags", "fcs_zero", "fcs_ffff", "fcs_ends_7d", "fcs_has_7e", "reg_zero_mid", "reg_zero_mid", "near_max_dense", "header_only_fcs_zero", "fcs_equals_other_field", "fcs_equals_other_field", "info_repeats_own_header_after_a_flag"))
    ftype, seg = 0xA, False
    if kind in ("hcs_zero", "header_only_fcs_zero", "hcs_flags"):
        n_info = 0 if kind == "header_only_fcs_zero" else rng.randint(6, 40)
        # register value that makes the transmitted header check sequence 00 00 - or 7E 7E / 7E 7D / 7D 7E (flag and escape octets)
        hcs_pair = (0x00, 0x00) if kind != "hcs_flags" else rng.choice(((0x7E, 0x7E), (0x7E, 0x7D), (0x7D, 0x7E), (0x7E, 0x00), (0x00, 0x7E)))
        hcs_target = (~((hcs_pair[1] << 8) | hcs_pair[0])) & 0xFFFF
        while True:
            dst = hdlc_ref.address(rng, rng.choice((1, 1, 2)))
            total = 2 + len(dst) + 1 + 1 + 2 + (n_info + 2 if n_info else 0)
            fmt = (ftype << 12) | total
            prefix = bytes((fmt >> 8, fmt & 0xFF)) + dst
            pair = fcs16.force(fcs16.register(prefix), hcs_target)  # register 0xFFFF <=> transmitted check sequence 00 00
            if pair[0] & 1:  # one-octet source address must have its low bit set
                src, ctrl = pair[:1], pair[1]
                break
        info = info_bytes(rng, n_info, rng.random() < 0.3)
        if ids is not None and n_info >= 6:
            info = ids.next() + info[6:]
        octets = hdlc_ref.build(ftype, seg, dst, src, ctrl, info)
        assert octets[len(prefix) + 2 : len(prefix) + 4] == bytes(hcs_pair)
        return octets, {"type": ftype, "seg": seg, "dst": dst, "src": src, "ctrl": ctrl, "info": info}, kind
    dst = hdlc_ref.address(rng, rng.choice((1, 1, 2, 4)))
    src = hdlc_ref.address(rng, rng.choice((1, 1, 2, 4)))
    ctrl = rng.randrange(256)
    if kind == "near_max_dense":
        n = hdlc_ref.max_info_len(len(dst), len(src)) - rng.choice((0, 0, 1, 2, 5))
        info = bytes(rng.choice((0x7E, 0x7D)) if rng.random() < 0.3 else rng.randrange(256) for _ in range(n))
        if ids is not None:
            info = ids.next() + info[6:]
        return hdlc_ref.build(ftype, seg, dst, src, ctrl, info), {"type": ftype, "seg": seg, "dst": dst, "src": src, "ctrl": ctrl, "info": info}, kind
    n = rng.randint(20, 60)
    body = bytearray(info_bytes(rng, n, rng.random() < 0.3))
    if ids is not None:
        body[:6] = ids.next()
    total = 2 + len(dst) + len(src) + 1 + 2 + n + 2
    fmt = (ftype << 12) | total
    header = bytes((fmt >> 8, fmt & 0xFF)) + dst + src + bytes((ctrl,))
    head = header + fcs16.trailer(header)
    if kind == "reg_zero_mid":
        pos = rng.randrange(6, n - 9)  # at least 8 plain octets follow
        body[pos : pos + 2] = fcs16.force(fcs16.register(head + bytes(body[:pos])), 0x0000)
        for k in range(pos + 2, min(n, pos + 12)):
            if body[k] in (0x7E, 0x7D):
                body[k] = 0x11
    elif kind == "info_repeats_own_header_after_a_flag":
        # self-similar content: the information field contains a flag octet directly followed by a copy of the frame's own header
        # (format / length, addresses, control, header check sequence) - or of its first octets
        copy = head[: rng.choice((len(head), len(head), len(head) - 2, 4))]
        pos = rng.randrange(6, max(7, n - len(copy) - 3))
        if pos + 1 + len(copy) <= n - 2:
            body[pos : pos + 1 + len(copy)] = b"\x7e" + copy
    elif kind == "fcs_equals_other_field":
        # the frame check sequence coincides with another field of the same frame: the header check sequence, the format field,
        # the first two information octets, the two address octets next to the control field (either octet order)
        field = rng.choice((head[-2:], head[:2], bytes(body[:2]), header[-3:-1], bytes(body[6:8])))
        lo, hi = (field[0], field[1]) if rng.random() < 0.8 else (field[1], field[0])
        body[n - 2 : n] = fcs16.force(fcs16.register(head + bytes(body[: n - 2])), (~((hi << 8) | lo)) & 0xFFFF)
    else:
        target = {"fcs_zero": 0xFFFF, "fcs_ffff": 0x0000, "fcs_ends_7d": (~((0x7D << 8) | rng.randrange(256))) & 0xFFFF,
                  "fcs_has_7e": (~((rng.randrange(256) << 8) | 0x7E)) & 0xFFFF}[kind]
        body[n - 2 : n] = fcs16.force(fcs16.register(head + bytes(body[: n - 2])), target)
    info = bytes(body)
    octets = hdlc_ref.build(ftype, seg, dst, src, ctrl, info)
    return octets, {"type": ftype, "seg": seg, "dst": dst, "src": src, "ctrl": ctrl, "info": info}, kind


def long_run(rng) -> tuple[bytes, str]:
    """Long homogeneous runs (deep recursion / quadratic behaviour / limits are only reached by such input)."""
    v = rng.choice((0x00, 0x0A, 0x30, 0x7D, 0xFF, 0xA0, 0x02, 0x2F, 0x21, 0x28))
    # even octets never terminate an HDLC address: the library re-scans the whole frame for every such octet (quadratic),
    # so those runs are kept just above the depth that matters (about 1000)
    n = rng.choice((950, 1100, 1300)) if v % 2 == 0 else rng.choice((950, 1100, 2100, 3000, 9000))
    head = rng.choice((b"", b"\x7e", b"\x7e\xa0\x00", b"\x7e\xa7\xff", b"/"))
    return head + bytes((v,)) * n + rng.choice((b"", b"\x7e", b"\n")), f"long_run_{v:02x}"


FILL_LENGTHS = (1, 1, 1, 2, 2, 3, 6, 7, 8, 15, 16, 17, 31, 32, 33, 34, 63, 64, 65, 66, 99, 100, 127, 128, 129, 255, 256, 257, 1000)


def fill(rng) -> bytes:
    """Inter-frame time fill: a run of flags whose length is drawn from small values and from the neighbourhood of powers of two."""
    return b"\x7e" * rng.choice(FILL_LENGTHS)
