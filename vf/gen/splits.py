"""Ways of cutting a byte stream into read()/data_received() chunks.

A splitting is a list of cut positions 0 < c1 < c2 < ... < len(stream); it is
described by a small JSON-able spec so that a replay file can re-create it.
"""
from __future__ import annotations

import itertools

FIXED_SIZES = (1, 2, 3, 7, 64, 100, 1000, 1024, 4096, 8192, 65536)


def apply(stream: bytes, cuts: list[int]) -> list[bytes]:
    out = []
    prev = 0
    for c in cuts:
        out.append(stream[prev:c])
        prev = c
    out.append(stream[prev:])
    return out


def cuts_from_spec(spec, length: int) -> list[int]:
    kind = spec[0]
    if kind == "none":
        return []
    if kind == "bytewise":
        return list(range(1, length))
    if kind == "single":
        return [spec[1]] if 0 < spec[1] < length else []
    if kind == "cuts":
        return [c for c in spec[1] if 0 < c < length]
    if kind == "fixed":
        size, offset = spec[1], spec[2]
        first = offset if 0 < offset else size
        return list(range(first, length, size))
    raise ValueError(spec)


def chunks(stream: bytes, spec) -> list[bytes]:
    return apply(stream, cuts_from_spec(spec, len(stream)))


def random_spec(rng, length: int, allow_bytewise: bool = True):
    """A random splitting spec for a stream of the given length."""
    if length <= 1:
        return ("none",)
    r = rng.random()
    if r < 0.10:
        return ("none",)
    if r < 0.25 and allow_bytewise:
        return ("bytewise",)
    if r < 0.40:
        return ("single", rng.randrange(1, length))
    if r < 0.70:
        k = rng.randint(1, min(12, length - 1))
        return ("cuts", sorted(rng.sample(range(1, length), k)))
    size = rng.choice(FIXED_SIZES)
    return ("fixed", size, rng.randrange(size + 1))


def family(rng, length: int, n_random: int = 3, every_single_up_to: int = 64):
    """A family of specs for one stream: none, bytewise, every single cut (short streams), random ones."""
    specs = [("none",), ("bytewise",)]
    if length <= every_single_up_to:
        specs += [("single", c) for c in range(1, length)]
    for _ in range(n_random):
        specs.append(random_spec(rng, length, allow_bytewise=False))
    return specs


def all_cut_sets(length: int):
    """All 2^(length-1) splittings of a short stream."""
    positions = list(range(1, length))
    for k in range(len(positions) + 1):
        for comb in itertools.combinations(positions, k):
            yield ("cuts", list(comb))


LIMITS = (2047, 2048, 8191, 8192, 65536)


def limit_spec(rng, length: int):
    """Cuts close to multiples of the sizes at which the readers change behaviour (frame limit, buffer guard)."""
    cuts = set()
    for _ in range(rng.randint(1, 3)):
        lim = rng.choice(LIMITS)
        if lim + 80 >= length:
            lim = rng.choice((2047, 2048))
            if lim + 80 >= length:
                continue
        k = rng.randint(1, max(1, length // lim))
        cuts.add(min(length - 1, max(1, k * lim + rng.randint(-70, 70))))
    return ("cuts", sorted(cuts)) if cuts else ("none",)


def aligned_spec(stream: bytes, delimiter: int, every: int = 1, offset: int = 1):
    """Cut exactly `offset` bytes after every `every`-th occurrence of the delimiter (line-by-line, frame-by-frame feeding)."""
    cuts = []
    n = 0
    for i, b in enumerate(stream):
        if b == delimiter:
            n += 1
            if n % every == 0 and 0 < i + offset < len(stream):
                cuts.append(i + offset)
    return ("cuts", cuts)


def structural_spec(stream: bytes, rng, flag: int = 0x7E, esc: int = 0x7D):
    """Calls that begin with a delimiter AND end right after an escape octet: a cut before (a random half of) the flags and after
    (a random half of) the escape octets of the stream."""
    cuts = set()
    for i, b in enumerate(stream):
        if b == flag and rng.random() < 0.5:
            cuts.add(i)
        elif b == esc and rng.random() < 0.5:
            cuts.add(i + 1)
    cuts = sorted(c for c in cuts if 0 < c < len(stream))
    return ("cuts", cuts) if cuts else ("none",)
