"""Pools of genuine messages (fixtures + generated) and junk derived from them, for C12 and C15."""
from __future__ import annotations

from vf import fixtures
from vf.gen import dlms_gen
from vf.ref import cosem_enc as ce

DECODER_NAMES = ("Aidon_frame", "Kaifa_frame", "Kamstrup_frame", "P1", "Aidon_notification_body", "Kaifa_notification_body", "Kamstrup_notification_body")
PALETTE = bytes((0x00, 0x01, 0x02, 0x06, 0x09, 0x0A, 0x0C, 0x0F, 0x10, 0x12, 0x16, 0xFF, 0x28, 0x29, 0x2A, 0x7E, 0x80, 0x0D, 0x0E, 0x11))


def own_decoder(family: str, form: str) -> str:
    if family == "P1":
        return "P1"
    return f"{family}_frame" if form == "frame" else f"{family}_notification_body"


def p1_block(rng) -> bytes:
    from vf.props import c11

    return c11.make_block(rng)[0]


def genuine(rng, n_generated_per_vendor: int = 3):
    """[(label, family, form, payload bytes)]"""
    out = []
    for name, (fam, form, hx) in fixtures.DLMS.items():
        out.append((name, fam, form, bytes.fromhex(hx)))
    for name, hx in fixtures.P1.items():
        raw = bytes.fromhex(hx).lstrip()
        lf = raw.find(b"\n")
        out.append((name, "P1", "block", raw[lf + 1 : raw.find(b"!")]))
    gens = (("Aidon", dlms_gen.aidon_case), ("Kaifa", dlms_gen.kaifa_case), ("Kamstrup", dlms_gen.kamstrup_case))
    for fam, gen in gens:
        for i in range(n_generated_per_vendor):
            c = gen(rng)
            out.append((f"gen_{fam}_{c.layout}_{i}_body", fam, "body", c.body))
            out.append((f"gen_{fam}_{c.layout}_{i}_frame", fam, "frame", c.frame))
    # Kaifa list-1 bodies whose register contains '(' or ')' octets: genuine messages that look like P1 text to the P1 parser
    for reg in (0x00002831, 0x28000000, 0x00292800, 0x28292829):
        body = ce.kaifa_value_body([ce.u32(reg)])
        out.append((f"kaifa_list1_reg_{reg:08x}_body", "Kaifa", "body", body))
        dt12, _ = dlms_gen.gen_datetime(rng)
        out.append((f"kaifa_list1_reg_{reg:08x}_frame", "Kaifa", "frame", ce.apdu(body, dt12, True)))
    # a genuine binary message whose last octets are CR LF (Kaifa list 1, 3338 W = 0x0D0A) and one full of structural octets
    for reg in (0x00000D0A, 0x0D0A0D0A):
        body = ce.kaifa_value_body([ce.u32(reg)])
        out.append((f"kaifa_list1_reg_{reg:08x}_body", "Kaifa", "body", body))
        dt12, _ = dlms_gen.gen_datetime(rng)
        out.append((f"kaifa_list1_reg_{reg:08x}_frame", "Kaifa", "frame", ce.apdu(body, dt12, True)))
    for i in range(2):
        out.append((f"gen_p1_block_{i}", "P1", "block", p1_block(rng)))
    # a P1 block is not an HDLC payload: nothing limits it to 2047 octets (DSMR text message of 1024 octets, hex coded; many M-Bus lines)
    big = p1_block(rng) + b"0-0:96.13.0(" + bytes(rng.choice(b"0123456789ABCDEF") for _ in range(2048)) + b")\r\n"
    out.append(("gen_p1_block_2300_octets", "P1", "block", big))
    out.append(("gen_p1_block_7000_octets", "P1", "block", b"".join(p1_block(rng) for _ in range(40))[:6000].rsplit(b"\n", 1)[0] + b"\n" + big[-2063:]))
    return out


def mutate(rng, msg: bytes) -> tuple[bytes, str]:
    kind = rng.choice(("truncate", "mutate", "mutate", "mutate", "ff_run", "insert", "delete", "swap_tag"))
    b = bytearray(msg)
    if not b:
        return bytes(rng.randbytes(3)), "random"
    if kind == "truncate":
        return bytes(b[: rng.randrange(len(b))]), kind
    if kind == "mutate":
        for _ in range(rng.randint(1, 5)):
            i = rng.randrange(len(b))
            b[i] = rng.choice(PALETTE) if rng.random() < 0.7 else rng.randrange(256)
    elif kind == "ff_run":
        i = rng.randrange(len(b))
        n = rng.choice((1, 2, 4, 12))
        b[i : i + n] = b"\xff" * len(b[i : i + n])
    elif kind == "insert":
        i = rng.randrange(len(b) + 1)
        b[i:i] = bytes(rng.choice(PALETTE) for _ in range(rng.randint(1, 4)))
    elif kind == "delete":
        i = rng.randrange(len(b))
        del b[i : i + rng.randint(1, 4)]
    else:
        idx = [i for i, x in enumerate(b) if x in (0x02, 0x06, 0x09, 0x0A, 0x10, 0x12, 0x0F, 0x16, 0x00, 0x01)]
        if idx:
            i = rng.choice(idx)
            if rng.random() < 0.5:
                b[i] = rng.choice((0x00, 0x01, 0x02, 0x06, 0x09, 0x0A, 0x0F, 0x10, 0x12, 0x16))
            else:
                # every type tag the COSEM data model knows (bit-string, bcd, int64, float32 / float64, date, time, compact array, ...),
                # followed - where four octets are at hand - by the bit patterns that are special for that width (NaN, infinities, -0.0)
                b[i] = rng.choice((0x03, 0x04, 0x05, 0x0D, 0x11, 0x13, 0x14, 0x15, 0x17, 0x17, 0x18, 0x19, 0x1A, 0x1B, 0x0C, 0xFF))
                if i + 5 <= len(b) and rng.random() < 0.6:
                    b[i + 1 : i + 5] = rng.choice((b"\x7f\xc0\x00\x00", b"\xff\xc0\x00\x01", b"\x7f\x80\x00\x00", b"\xff\x80\x00\x00", b"\x80\x00\x00\x00", b"\x7f\xf8\x00\x00", b"\x00\x00\x00\x01"))
    return bytes(b), kind


def structured_junk(rng) -> tuple[bytes, str]:
    """Well-formed COSEM that is not a documented list, and genuine frames with an unusual LLC header."""
    kind = rng.choice(("kaifa_odd_length", "kaifa_odd_length_frame", "llc_variant", "kamstrup_unknown_obis", "aidon_or_kaifa_unknown_obis", "repeated_elements", "repeated_elements", "apdu_null_datetime", "datetime_ff", "deep_nesting", "deep_nesting"))
    if kind == "deep_nesting":
        # structures / arrays nested 5..40 deep (a grammar with alternatives that re-parse the same bytes is exponential in the depth)
        depth = rng.choice((5, 8, 12, 16, 20, 24, 32, 40))
        inner = ce.u32(rng.randrange(2**32)) if rng.random() < 0.5 else b"\x0f\x00"
        body = inner
        for _ in range(depth):
            tag = rng.choice((1, 2, 2))
            if rng.random() < 0.6:
                body = bytes((tag, 2)) + body + rng.choice((b"\x0f\x00", b"\x16\x1b", ce.u32(1), b"\x00"))
            else:
                body = bytes((tag, 1)) + body
        body = bytes((2, 1)) + body
        if rng.random() < 0.5:
            dt12, _ = dlms_gen.gen_datetime(rng)
            return ce.apdu(body, dt12, True), kind
        return body, kind
    if kind.startswith("kaifa_odd_length"):
        n = rng.choice((2, 3, 4, 5, 6, 7, 8, 10, 11, 12, 15, 16, 17, 19, 20, rng.randint(2, 40)))
        vals = []
        for _ in range(n):
            r = rng.random()
            if r < 0.3:
                vals.append(ce.octet_string(bytes(rng.randrange(0x20, 0x7F) for _ in range(rng.choice((0, 7, 8, 16))))))
            else:
                vals.append(ce.u32(rng.randrange(2**32)))
        body = ce.kaifa_value_body(vals)
        if kind.endswith("frame"):
            dt12, _ = dlms_gen.gen_datetime(rng)
            return ce.apdu(body, dt12, rng.random() < 0.5), kind
        return body, kind
    if kind == "llc_variant":
        gen = rng.choice((dlms_gen.aidon_case, dlms_gen.kaifa_case, dlms_gen.kamstrup_case))
        fr = bytearray(gen(rng).frame)
        i = rng.randrange(3)
        fr[i] = rng.choice((0x00, 0xE6, 0xE7, 0x03, 0xFF, rng.randrange(256)))
        if rng.random() < 0.3:
            # LLC octets that read like the header of an empty list of another meter (01 00 .. / 02 00 .. / 02 01 ..)
            fr[0:3] = rng.choice((b"\x01\x00", b"\x02\x00", b"\x02\x01", b"\x01\x01")) + bytes((rng.choice((0x00, 0x0F, 0x09, rng.randrange(256))),))
        return bytes(fr), kind
    if kind == "repeated_elements":
        # an otherwise well-formed list in which one OBIS element occurs 2..6 times (same code; same or different registers)
        k = rng.choice((2, 3, 3, 4, 6))
        vendor = rng.choice(("aidon", "kaifa_se", "kamstrup"))
        code = rng.choice(((1, 0, 1, 7, 0, 255), (1, 1, 1, 7, 0, 255), (1, 0, 31, 7, 0, 255), (1, 1, 1, 8, 0, 255), (0, 0, 1, 0, 0, 255), (0, 1, 1, 0, 0, 255), (1, 0, 99, 99, 0, 255)))
        regs = [rng.randrange(2**32)] * k if rng.random() < 0.5 else [rng.randrange(2**32) for _ in range(k)]
        dt12, _ = dlms_gen.gen_datetime(rng)
        is_clock = code[2:5] == (1, 0, 0)
        if vendor == "aidon":
            rep = [ce.aidon_element(code, "datetime", dt12) if is_clock else ce.aidon_element(code, "u32", r, 0, ce.UNIT_W) for r in regs]
            other = [ce.aidon_element((1, 0, 2, 7, 0, 255), "u32", 5, 0, ce.UNIT_W)]
            els = rep + other if rng.random() < 0.5 else rep[:1] + other + rep[1:]
            body = ce.aidon_body(els)
        else:
            rep = [(code, ce.datetime_octets(dt12) if is_clock else ce.u32(r)) for r in regs]
            other = [((1, 1, 2, 7, 0, 255), ce.u32(5))]
            pairs = rep + other if rng.random() < 0.5 else rep[:1] + other + rep[1:]
            body = ce.kaifa_obis_body(pairs) if vendor == "kaifa_se" else ce.kamstrup_body("Kamstrup_V0001", pairs, [0] * (len(pairs) + 1))
        if rng.random() < 0.5:
            return ce.apdu(body, dt12, rng.random() < 0.5), kind
        return body, kind
    if kind in ("kamstrup_unknown_obis", "aidon_or_kaifa_unknown_obis"):
        # a well-formed list carrying an OBIS code that the vendor's table does not name
        c = dlms_gen.kamstrup_case(rng) if kind.startswith("kamstrup") else rng.choice((dlms_gen.aidon_case(rng), dlms_gen.kaifa_case(rng, "se")))
        b = bytearray(c.body if rng.random() < 0.5 else c.frame)
        idx = [i for i in range(len(b) - 8) if b[i] == 0x09 and b[i + 1] == 0x06 and b[i + 7] == 0xFF]
        if idx:
            i = rng.choice(idx)
            b[i + 4] = rng.choice((0x63, 0x09, 0x0D, rng.randrange(256)))
        return bytes(b), kind
    if kind == "apdu_null_datetime":
        gen = rng.choice((dlms_gen.kaifa_case, dlms_gen.kamstrup_case))
        c = gen(rng)
        return ce.apdu(c.body, None), kind
    gen = rng.choice((dlms_gen.aidon_case, dlms_gen.kaifa_case, dlms_gen.kamstrup_case))
    c = gen(rng)
    b = bytearray(c.frame if rng.random() < 0.7 else c.body)
    idx = [i for i in range(len(b) - 13) if b[i] == 0x0C and b[i + 1] in (0x07, 0x00, 0x08, 0x27)]
    if idx:
        i = rng.choice(idx)
        if rng.random() < 0.4:
            for k in rng.sample(range(1, 13), rng.randint(1, 6)):
                b[i + k] = 0xFF
        else:
            # the values the COSEM date-time format reserves or that a calendar library refuses: year 0 / 0xFFFF / beyond 9999, month
            # 0xFD / 0xFE (daylight-saving begin / end), day 0xFD / 0xFE (second-last / last day of the month), 0, 32, hour 24, ...
            special = {1: (0x00, 0x27, 0x28, 0xFF, 0x80, 0x07), 2: (0x00, 0x10, 0x0F, 0xFF, 0xE4, 0x11), 3: (0x00, 0x0D, 0xFD, 0xFE, 0xFF, 0x02), 4: (0x00, 0x20, 0x1F, 0x1E, 0xFD, 0xFE, 0xFF),
                       5: (0x00, 0x08, 0xFF), 6: (0x18, 0x17, 0xFF, 0x00), 7: (0x3C, 0x3B, 0xFF), 8: (0x3C, 0x3D, 0xFF), 9: (0x64, 0x63, 0xFF), 10: (0x80, 0x7F, 0xFD, 0x02), 11: (0x00, 0x01, 0xD0, 0x30), 12: (0xFF, 0x80, 0x00)}
            for k in rng.sample(range(1, 13), rng.randint(1, 4)):
                b[i + k] = rng.choice(special[k])
    return bytes(b), kind


ASCII_FRAG = "0123456789.:-()*\r\n kWhA"
NUMERIC_EXTREMES = ("9e9123", "1e308", "1e309", "inf", "-inf", "nan", "infinity", "1e-400", "-0", "1_000", "0x10", "١٢٣", "1e5", "+5", ".5", "5.", "1" + "0" * 400)


def ascii_fragment(rng) -> bytes:
    r = rng.random()
    if r < 0.2:
        v = rng.choice(NUMERIC_EXTREMES)
        unit = rng.choice(("kW", "kWh", "kvar", "kvarh", "V", "A", "var", "varh", "KW"))
        try:
            return f"1-0:{rng.choice(('1.7.0', '1.8.0', '32.7.0', '9.9.9'))}({v}*{unit})\r\n".encode("ascii"), "ascii"
        except UnicodeEncodeError:
            return f"1-0:1.7.0({v}*{unit})\r\n".encode("utf-8"), "ascii"
    if r < 0.26:
        # hex text of a genuine message (a bridge may deliver frames as text): complete, with a digit missing, with blanks and line ends
        name = rng.choice(sorted(fixtures.DLMS))
        hx = fixtures.DLMS[name][2]
        style = rng.choice(("plain", "odd", "spaced", "lines", "upper", "short"))
        if style == "odd":
            hx = hx[:-1]
        elif style == "spaced":
            hx = " ".join(hx[i : i + 2] for i in range(0, len(hx), 2))
        elif style == "lines":
            hx = "\r\n".join(hx[i : i + 32] for i in range(0, len(hx), 32))
        elif style == "upper":
            hx = hx.upper()
        elif style == "short":
            hx = hx[: rng.choice((15, 16, 17, 31, 33))]
        return hx.encode("ascii"), "ascii"
    if r < 0.3:
        # a long run of one character class followed by one character of another class (regular expressions with nested
        # quantifiers, recursive descent and quadratic scans only show on such input)
        cls = rng.choice(("0123456789", "1", "9", ".", "0.", "(", ")", "*", "-", ":", "aA", " ", "\r\n", "1-0:", "(1)"))
        n = rng.choice((25, 40, 100, 400, 1500))
        run = "".join(rng.choice(cls) for _ in range(n)) if len(cls) > 1 and rng.random() < 0.5 else (cls * n)[:n]
        term = rng.choice(("x", "!", "*", ")", "(", ".", "", "\r\n"))
        unit = rng.choice(("kW", "kWh", "V", "A", "var", "kvarh", ""))
        where = rng.choice(("value", "value", "unit", "address", "bare"))
        if where == "value":
            text = f"1-0:1.8.0({run}{term}*{unit})\r\n"
        elif where == "unit":
            text = f"1-0:1.8.0(1*{run}{term})\r\n"
        elif where == "address":
            text = f"{run}{term}(1*kWh)\r\n"
        else:
            text = run + term
        return text.encode("ascii"), "ascii"
    if r < 0.45:
        base = rng.choice(("1-0:1.8.0(123", "1-0:1.8.0(123)xyz", "1-0:1.8.0(1*kWh)(", "(1)(2", "1.8.0(1))", "1.8.0((1)", ")(", "1.8.0(1)\r\n2.8.0(2", "(", "1.8.0()", "a(b)c(d)e"))
        return base.encode(), "ascii"
    n = rng.choice((1, 2, 5, 12, 40, 200))
    return "".join(rng.choice(ASCII_FRAG) for _ in range(n)).encode(), "ascii"


def canonical_inputs() -> list[tuple[bytes, str]]:
    """A fixed corpus that every C15 run probes (so that detection of these classes does not depend on the random draw):
    long runs of one character class followed by another character, in value / unit / address position, and friends."""
    out = []
    for cls in ("1", "0", "9", "0123456789", "0.", "1.", ".", "(", ")", "*", "-", ":", "a", " ", "e", "1e", "-1"):
        for n in (30, 60, 400):
            run = (cls * n)[:n]
            for term in ("x", "", "."):
                for unit in ("kWh", "V"):
                    out.append((f"1-0:1.8.0({run}{term}*{unit})\r\n".encode(), "canonical"))
            out.append((f"1-0:1.8.0(1*{run}x)\r\n".encode(), "canonical"))
            out.append((f"{run}x(1*kWh)\r\n".encode(), "canonical"))
            out.append((f"{run}".encode(), "canonical"))
    # numbers whose *value* is huge while their text is short (exact decimal / integer arithmetic on them is quadratic or worse in the
    # exponent), for every unit that is converted and some that are not, alone and as the second value of an M-Bus style data set
    for v in ("1e99", "1e999", "1e9999", "1e99999", "1e999999", "9e999999", "04e900857", "4.5e600000", "1E+999999", "1e-999999", "0.1e1000000", "-1e999999", "1e0999999", "9" * 400 + "e999000"):
        for unit in ("kW", "kWh", "kvar", "kvarh", "V", "A", "var", "varh", "m3", "GJ", "Wh", None):
            u = f"*{unit}" if unit else ""
            out.append((f"1-0:1.8.0({v}{u})\r\n".encode(), "canonical"))
            out.append((f"0-1:24.2.1(180924130000S)({v}{u})\r\n".encode(), "canonical"))
    # every pair of (date-time field, reserved or out-of-calendar value) in one genuine message per meter (two coordinated changes)
    special = {1: (0x00, 0x27, 0x28, 0xFF), 2: (0x00, 0x10, 0xFF, 0xE4), 3: (0x00, 0x0D, 0xFD, 0xFE, 0xFF, 0x02), 4: (0x00, 0x20, 0x1F, 0x1E, 0xFD, 0xFE, 0xFF),
               6: (0x18, 0xFF), 7: (0x3C, 0xFF), 8: (0x3C, 0xFF), 9: (0x64, 0xFF), 10: (0x80, 0x7F), 12: (0xFF, 0x80)}
    done = set()
    for name in sorted(fixtures.DLMS):
        fam, form, hx = fixtures.DLMS[name]
        raw = bytes.fromhex(hx)
        idx = [i for i in range(len(raw) - 13) if raw[i] == 0x0C and raw[i + 1] == 0x07]
        if not idx or (fam, form) in done:
            continue
        done.add((fam, form))
        i = idx[-1]
        fields = sorted(special)
        for a in range(len(fields)):
            for va in special[fields[a]]:
                one = bytearray(raw)
                one[i + fields[a]] = va
                out.append((bytes(one), "canonical"))
                for b2 in range(a + 1, len(fields)):
                    for vb in special[fields[b2]]:
                        two = bytearray(one)
                        two[i + fields[b2]] = vb
                        out.append((bytes(two), "canonical"))
    # every 32-bit register of one genuine message per meter re-tagged as another four-octet type of the data model, with the bit
    # patterns that are special for it (float32 NaN / infinity / -0.0 / denormal, int32 minimum, all ones): the list stays aligned
    done = set()
    for name in sorted(fixtures.DLMS):
        fam, form, hx = fixtures.DLMS[name]
        raw = bytes.fromhex(hx)
        if (fam, form) in done or len(raw) < 30:
            continue
        done.add((fam, form))
        positions = [i for i in range(len(raw) - 5) if raw[i] == 0x06 and raw[i + 5] in (0x02, 0x06, 0x09, 0x0A, 0x12, 0x10, 0x0F)][:12]
        for i in positions:
            for tag, pats in ((0x17, (b"\x7f\xc0\x00\x00", b"\xff\xc0\x00\x01", b"\x7f\x80\x00\x00", b"\xff\x80\x00\x00", b"\x80\x00\x00\x00", b"\x00\x00\x00\x01", b"\x7f\x7f\xff\xff")),
                              (0x05, (b"\x80\x00\x00\x00", b"\xff\xff\xff\xff")), (0x06, (b"\xff\xff\xff\xff",))):
                for pat in pats:
                    b = bytearray(raw)
                    b[i] = tag
                    b[i + 1 : i + 5] = pat
                    out.append((bytes(b), "canonical"))
    # hex-coded text (equipment ids, the DSMR text message) of special characters: blanks, NULs, line ends, one character, nothing
    for code in ("0-0:96.13.0", "0-0:96.13.1", "0-0:96.1.1", "0-1:96.1.0", "1-3:0.2.8"):
        for hx in ("", "20", "2020", "20202020202020", "00", "0000", "0A", "0D0A", "7F", "FF", "2", "202", "4B38", "2020x", "50", "42"):
            out.append((f"{code}({hx})\r\n".encode(), "canonical"))
            out.append((f"1-3:0.2.8(50)\r\n{code}({hx})\r\n".encode(), "canonical"))
    for depth in (10, 20, 30, 40, 60):
        body = b"\x0f\x00"
        for _ in range(depth):
            body = b"\x02\x02" + body + b"\x0f\x00"
        out.append((b"\x02\x01" + body, "canonical"))
        body = ce.u32(7)
        for _ in range(depth):
            body = b"\x01\x01" + body
        out.append((b"\x01\x01" + body, "canonical"))
    return out
