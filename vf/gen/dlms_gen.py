"""Generators of well-formed Aidon / Kaifa / Kamstrup push lists with their expected decoding.

Each generator returns a Case: the notification body, the LLC frame content, a
description, and two expected dictionaries (body form / frame form) whose
values are tagged tuples:
   ("int", n)            numeric equality with the integer n
   ("float", f)          equality with the float f (the correctly rounded exact value)
   ("approx", Fraction)  within 2^-50 relative of the exact value (C09 currents)
   ("str", s)            verbatim text
   ("dt", spec)          date-time compared field-wise (see check_datetime)
"""
from __future__ import annotations

import datetime
from dataclasses import dataclass, field
from fractions import Fraction

from vf.ref import cosem_enc as ce
from vf.ref import names

PRINTABLE = [chr(c) for c in range(0x20, 0x7F)]


@dataclass
class Case:
    vendor: str
    layout: str
    body: bytes
    frame: bytes
    expect_body: dict
    expect_frame: dict
    tags: list = field(default_factory=list)


# ------------------------------------------------------------------ primitive values

def register(rng, kind: str) -> int:
    v = _register(rng, kind)
    _recent_registers.append(v)
    del _recent_registers[:-6]
    return v


def _register(rng, kind: str) -> int:
    lo, hi = ce.RANGES[kind]
    r = rng.random()
    if r < 0.12 and _recent_registers:
        # the same raw value again in another field (a cache keyed by the raw value alone would confuse the two)
        v = rng.choice(_recent_registers)
        if lo <= v <= hi:
            return v
    if r < 0.2:
        # realistic magnitudes: volts x 10, milliamps, watts
        return min(hi, max(lo, rng.choice((2305, 2298, 2312, 230, 231, 229, 999, 16000, 1450, 75, 3338, 12, rng.randint(0, 999)))))
    if r < 0.35:
        pool = [lo, lo + 1, hi, hi - 1, 0, 1, 999, 1000, 1001, 57, 100, 255, 256, 32767, 32768, 65535, 65536, -1, -2,
                # octets that mean something to the *other* parsers: CR LF, '(' ')', '/', '!', flag, escape, tags
                0x0D0A, 0x0A0D, 0x0A, 0x0D, 0x2829, 0x28292829, 0x2F, 0x21, 0x7E, 0x7D, 0x7E7E, 0x0906, 0x0C07, 0xFF, 0xFFFF, 0x2E, 0x3A]
        v = rng.choice(pool)
        return min(max(v, lo), hi)
    if r < 0.42:
        # registers whose octets spell a fragment of the COSEM grammar itself (element headers, tags, scaler-unit, clock prefix):
        # anything that looks for structure in the raw message finds one more than was sent
        frag = rng.choice(GRAMMAR_FRAGMENTS) if rng.random() < 0.7 else bytes(rng.choice(TAG_OCTETS) for _ in range(4))
        v = int.from_bytes(frag[: 4 if hi > 65535 else 2], "big")
        return min(max(v, lo), hi)
    if r < 0.6:
        return rng.randint(max(lo, -3000), min(hi, 3000))
    return rng.randint(lo, hi)


GRAMMAR_FRAGMENTS = (bytes.fromhex("02020906"), bytes.fromhex("02030906"), bytes.fromhex("09060100"), bytes.fromhex("09060000"), bytes.fromhex("0101020x".replace("x", "2")),
                     bytes.fromhex("0f00161b"), bytes.fromhex("0202"), bytes.fromhex("0203"), bytes.fromhex("0201"), bytes.fromhex("0112"), bytes.fromhex("0a10"), bytes.fromhex("090c07e4"),
                     bytes.fromhex("0c07e809"), bytes.fromhex("e6e7000f"), bytes.fromhex("0f400000"), bytes.fromhex("0600"), bytes.fromhex("1200"), bytes.fromhex("1000"), bytes.fromhex("0000"),
                     bytes.fromhex("ff800000"), bytes.fromhex("0109060001"), bytes.fromhex("16231d1e"))
TAG_OCTETS = (0x00, 0x01, 0x02, 0x03, 0x06, 0x09, 0x0A, 0x0C, 0x0F, 0x10, 0x11, 0x12, 0x16, 0x1B, 0x1D, 0x1E, 0x20, 0x21, 0x23, 0xFF)
CONTROL = [chr(c) for c in range(0x20)] + ["\x7f"]
DOCUMENTED_TEXT = ("KFM_001", "AIDON_V0001", "Kamstrup_V0001", "6970631402614476", "MA304H3E", "MA304H4", "7359992892587665", "6525", "5706567000000000",
                   "6841121BN243101040", "6861111BN242101040")
TOKENS = ("value", "datetime", "content", "length", "obis", "type", "index", "None", "null", "nan", "inf", "0", "-1", "1e5", "items", "keys", "__class__")
_recent_registers: list[int] = []


def ascii_text(rng, max_len: int = 18, min_len: int = 0, lengths=None) -> str:
    r = rng.random()
    if r < 0.25 and not lengths:
        t = rng.choice(DOCUMENTED_TEXT)
        if rng.random() < 0.3:
            # the documented text with its last digit(s) counted on (another version / type / serial number of the same family)
            i = len(t) - 1
            while i >= 0 and not t[i].isdigit():
                i -= 1
            if i >= 0:
                t = t[:i] + str((int(t[i]) + rng.randint(1, 9)) % 10) + t[i + 1 :]
        return t[:max_len]
    if r < 0.45 and r >= 0.33 and not lengths:
        # type numbers: three leading digits carry a meaning for some vendors (e.g. 685... = current-transformer meter)
        return (str(rng.choice((rng.randint(600, 699), 685, 684, 655, 656, 585, 100, 999))) + "".join(rng.choice("0123456789ABN") for _ in range(rng.choice((0, 1, 9, 15)))))[:max_len]
    if r < 0.33 and not lengths:
        # words that mean something to Python / the parsing library, alone or embedded
        t = rng.choice(TOKENS)
        return (rng.choice(("", "A_", "no-")) + t + rng.choice(("", "_V1", "-set")))[:max_len]
    n = rng.choice(lengths) if lengths else rng.randint(min_len, max_len)
    if r > 0.86 and n:
        # ASCII is 0..127: fixed-width fields filled up with NUL or blanks, control characters, fragments of the COSEM grammar inside the text
        t = [rng.choice(PRINTABLE) for _ in range(n)]
        style = rng.choice(("nul_filled", "blank_filled", "control_anywhere", "grammar_fragment", "leading_nul"))
        if style in ("nul_filled", "blank_filled"):
            k = rng.randint(1, n)
            t[n - k :] = ("\x00" if style == "nul_filled" else " ") * k
        elif style == "leading_nul":
            t[0] = "\x00"
        elif style == "control_anywhere":
            for _ in range(rng.randint(1, 3)):
                t[rng.randrange(n)] = rng.choice(CONTROL)
        else:
            frag = rng.choice([f for f in GRAMMAR_FRAGMENTS if all(b < 0x80 for b in f)]).decode("ascii")
            i = rng.randrange(n)
            t[i : i + len(frag)] = frag
        return "".join(t)[:n]
    return "".join(rng.choice(PRINTABLE) for _ in range(n))


SENTINEL_INSTANTS = ((2000, 1, 1, 0, 0, 0), (1970, 1, 1, 0, 0, 0), (1900, 1, 1, 0, 0, 0), (1, 1, 1, 0, 0, 0), (9999, 12, 31, 23, 59, 59), (2038, 1, 19, 3, 14, 7), (2038, 1, 19, 3, 14, 8),
                     (1999, 12, 31, 23, 59, 59), (2001, 1, 1, 0, 0, 0), (1980, 1, 6, 0, 0, 0), (1601, 1, 1, 0, 0, 0), (1904, 1, 1, 0, 0, 0), (2106, 2, 7, 6, 28, 15), (2000, 1, 1, 12, 0, 0),
                     (2024, 1, 1, 0, 0, 0), (2024, 12, 31, 23, 59, 59), (2000, 1, 1, 0, 0, 1), (2000, 2, 29, 0, 0, 0), (2100, 1, 1, 0, 0, 0), (1, 1, 1, 0, 0, 1))


def datetime_lookalike_text(rng) -> str:
    """Twelve ASCII characters whose octets are at the same time a well-formed COSEM date-time (a year below 1920 or in the first
    centuries, month, day, hour ... all below 0x80): text is text, whatever else its octets could mean."""
    year = rng.choice((rng.randint(0x0701, 0x077F), rng.randint(1, 0x7F), 0x0064))
    month, day = rng.randint(1, 12), rng.randint(1, 28)
    b = bytes((year >> 8, year & 0xFF, month, day, rng.choice((1, 7, 0x7F)), rng.randrange(24), rng.randrange(60), rng.randrange(60), rng.randrange(100),
               rng.choice((0x00, 0x00, 0x01, 0x02)), rng.randrange(0x80), rng.choice((0x00, 0x01, 0x7F))))
    return b.decode("ascii")


def clock_code(rng, default: tuple, tags: list) -> tuple:
    """The OBIS code in front of a list's clock element: usually the vendor's own, sometimes another code of the clock object
    (value groups C.D.E = 1.0.0 name the clock whatever A, B and F say; vendors differ in exactly these groups)."""
    if rng.random() < 0.85:
        return default
    tags.append("clock_under_another_obis_code")
    return (rng.choice((0, 0, 1, rng.randrange(256))), rng.choice((0, 1, 2, rng.randrange(256))), 1, 0, 0, rng.choice((255, 255, rng.randrange(256))))


def gen_datetime(rng):
    """(12 octets, expected spec) for a date-time inside C10's domain."""
    year = rng.choice((1, 1999, 2000, 2019, 2024, 9999, rng.randint(1, 9999)))
    month = rng.randint(1, 12)
    r = rng.random()
    if r < 0.2 and (year % 4 == 0 and (year % 100 != 0 or year % 400 == 0)):
        month, day = 2, 29
    else:
        last = [31, 28, 31, 30, 31, 30, 31, 31, 30, 31, 30, 31][month - 1]
        day = rng.choice((1, last, rng.randint(1, last)))
    hour = rng.choice((0, 23, 12, rng.randrange(24)))
    minute = rng.choice((0, 59, rng.randrange(60)))
    second = rng.choice((0, 59, rng.randrange(60)))
    hundredths = rng.choice((None, None, 0, 1, 50, 99, rng.randrange(100)))
    deviation = rng.choice((None, None, -720, -1, 0, 1, 60, -60, 120, 720, rng.randint(-720, 720)))
    status = rng.choice((0, 0xFF, 0x80, 0x01, rng.randrange(256)))
    dow = rng.choice((1, 7, 0xFF, rng.randrange(256)))
    if rng.random() < 0.04:
        # the two ends of the calendar, with a deviation that puts the UTC instant beyond it
        if rng.random() < 0.5:
            year, month, day, hour, minute = 1, 1, 1, 0, rng.randrange(60)
            deviation = rng.choice((-720, -60, -1, -120, 60, None))
        else:
            year, month, day, hour, minute = 9999, 12, 31, 23, rng.randrange(60)
            deviation = rng.choice((720, 60, 1, 120, -60, None))
    if rng.random() < 0.06:
        # instants that programs use as "no value": epochs, the first / last second of a century, of a year, exact midnight / noon
        year, month, day, hour, minute, second = rng.choice(SENTINEL_INSTANTS)
        if rng.random() < 0.3 and (month, day) != (2, 29):
            year = rng.randint(2, 9998)
        hundredths = rng.choice((None, 0, 0, hundredths))
        deviation = rng.choice((None, None, 0, deviation)) if 2 <= year <= 9998 else None
    dt12 = ce.datetime12(year, month, day, dow, hour, minute, second, hundredths, deviation, status)
    spec = {"civil": [year, month, day, hour, minute, second], "us": 0 if hundredths is None else hundredths * 10000,
            "offset_min": None if deviation is None else -deviation, "status": status, "deviation": deviation, "hundredths": hundredths}
    return dt12, spec


def same_instant_other_deviation(rng, spec):
    """A date-time denoting the same UTC instant as spec, written with another deviation (None if not representable)."""
    if spec["deviation"] is None:
        return None
    y, mo, d, h, mi, s = spec["civil"]
    if not (2 <= y <= 9998):
        return None
    dev2 = rng.choice((0, 60, -60, 120, -120, spec["deviation"], 30, -720, 720))
    local1 = datetime.datetime(y, mo, d, h, mi, s)
    local2 = local1 + datetime.timedelta(minutes=spec["deviation"] - dev2)  # UTC = local + deviation
    hund = spec["hundredths"]
    status = rng.randrange(256)
    dt12 = ce.datetime12(local2.year, local2.month, local2.day, 0xFF, local2.hour, local2.minute, local2.second, hund, dev2, status)
    spec2 = {"civil": [local2.year, local2.month, local2.day, local2.hour, local2.minute, local2.second], "us": 0 if hund is None else hund * 10000,
             "offset_min": -dev2, "status": status, "deviation": dev2, "hundredths": hund}
    return dt12, spec2


def check_datetime(got, spec) -> str | None:
    """None when got is the date-time described by spec, else a description of the difference."""
    if not isinstance(got, datetime.datetime):
        return f"not a datetime: {got!r}"
    y, mo, d, h, mi, s = spec["civil"]
    want_naive = datetime.datetime(y, mo, d, h, mi, s, spec["us"])
    if got.replace(tzinfo=None) != want_naive:
        return f"civil fields {got.replace(tzinfo=None).isoformat()} != {want_naive.isoformat()}"
    off = got.utcoffset()
    if spec["offset_min"] is None:
        if got.tzinfo is not None:
            return f"deviation unspecified but tzinfo={got.tzinfo!r}"
    else:
        if off != datetime.timedelta(minutes=spec["offset_min"]):
            return f"utcoffset {off!r} != {spec['offset_min']} minutes (deviation {spec['deviation']})"
    return None


TRAILING_NUL = "trailing-nul-stripped"  # mechanism tag: the text came back without its trailing NUL characters, otherwise verbatim


def compare_value(got, want) -> str | None:
    kind, v = want
    if kind == "int":
        if isinstance(got, bool) or not isinstance(got, (int, float)) or got != v:
            return f"{got!r} != {v}"
    elif kind == "float":
        if isinstance(got, bool) or not isinstance(got, (int, float)) or got != v:
            return f"{got!r} != {v!r} (correctly rounded)"
    elif kind == "approx":
        if isinstance(got, bool) or not isinstance(got, (int, float)):
            return f"{got!r} is not a number"
        exact = v
        err = abs(Fraction(got) - exact)
        if err > abs(exact) * Fraction(1, 2**50):
            return f"{got!r} differs from {float(exact)!r} by more than 2^-50 relative"
    elif kind == "str":
        if got != v or not isinstance(got, str):
            if isinstance(got, str) and v.endswith("\x00") and got == v.rstrip("\x00"):
                return f"{TRAILING_NUL}: {got!r} != {v!r}"
            return f"{got!r} != {v!r}"
    elif kind == "dt":
        return check_datetime(got, v)
    return None


def compare_dict(got, want: dict):
    """Yield (field, problem) for every difference, including missing and extra keys."""
    if not isinstance(got, dict):
        yield ("<result>", f"not a dict: {got!r:.100}")
        return
    for k, w in want.items():
        if k not in got:
            yield (k, "missing")
            continue
        p = compare_value(got[k], w)
        if p:
            yield (k, p)
    for k in got:
        if k not in want:
            yield (k, f"unexpected key with value {got[k]!r:.60}")


def scaled(reg: int, exponent: int):
    x = Fraction(reg) * Fraction(10) ** exponent
    if x.denominator == 1:
        return ("int", int(x))
    return ("float", float(x))


def apdu_variant(rng, allow_null: bool):
    """(dt12 or None, tagged, spec or None)"""
    r = rng.random()
    if allow_null and r < 0.3:
        return None, True, None
    dt12, spec = gen_datetime(rng)
    return dt12, rng.random() < 0.5, spec


# ------------------------------------------------------------------------------ Aidon

A_VER, A_ID, A_TYPE = (1, 1, 0, 2, 129, 255), (0, 0, 96, 1, 0, 255), (0, 0, 96, 1, 7, 255)
A_CLOCK = (0, 0, 1, 0, 0, 255)


def _a(c, unit, kind, exp):
    return ((1, 0, c, 7 if unit in (ce.UNIT_W, ce.UNIT_VAR, ce.UNIT_A, ce.UNIT_V) else 8, 0, 255), kind, exp, unit)


A_P = [_a(1, ce.UNIT_W, "u32", 0), _a(2, ce.UNIT_W, "u32", 0), _a(3, ce.UNIT_VAR, "u32", 0), _a(4, ce.UNIT_VAR, "u32", 0)]
A_I = [_a(31, ce.UNIT_A, "i16", -1), _a(51, ce.UNIT_A, "i16", -1), _a(71, ce.UNIT_A, "i16", -1)]
A_U = [_a(32, ce.UNIT_V, "u16", -1), _a(52, ce.UNIT_V, "u16", -1), _a(72, ce.UNIT_V, "u16", -1)]
A_E = [_a(1, ce.UNIT_WH, "u32", 1), _a(2, ce.UNIT_WH, "u32", 1), _a(3, ce.UNIT_VARH, "u32", 1), _a(4, ce.UNIT_VARH, "u32", 1)]
A_PP = [_a(c, ce.UNIT_W if c % 10 in (1, 2) else ce.UNIT_VAR, "u32", 0) for c in (21, 22, 23, 24, 41, 42, 43, 44, 61, 62, 63, 64)]

AIDON_LAYOUTS = {
    "no_list_1": [A_P[0]],
    "no_list_2_1ph": ["ver", "id", "type"] + A_P + [A_I[0], A_U[0]],
    "no_list_2_3ph": ["ver", "id", "type"] + A_P + A_I + A_U,
    "no_list_2_3ph_it": ["ver", "id", "type"] + A_P + [A_I[0], A_I[2]] + A_U,
    "no_list_3_1ph": ["ver", "id", "type"] + A_P + [A_I[0], A_U[0]] + ["clock"] + A_E,
    "no_list_3_3ph": ["ver", "id", "type"] + A_P + A_I + A_U + ["clock"] + A_E,
    "se_list": ["clock"] + A_P + A_I + A_U + A_PP + A_E,
}


def aidon_case(rng, layout: str | None = None) -> Case:
    tags = []
    if layout is None:
        layout = rng.choice(list(AIDON_LAYOUTS) + ["subset"])
    if layout == "subset":
        pool = ["ver", "id", "type", "clock"] + A_P + A_I + A_U + A_PP + A_E
        items = rng.sample(pool, rng.randint(1, len(pool)))
    else:
        items = list(AIDON_LAYOUTS[layout])
    elements = []
    expect = {"meter_manufacturer": ("str", "Aidon")}
    vary_scaler = rng.random() < 0.7
    for it in items:
        if it == "ver":
            s = ascii_text(rng, 16)
            elements.append(ce.aidon_element(A_VER, "str", s))
            expect[names.name_of(A_VER)] = ("str", s)
        elif it == "id":
            s = ascii_text(rng, 20) if rng.random() > 0.04 else datetime_lookalike_text(rng)
            elements.append(ce.aidon_element(A_ID, "str", s))
            expect[names.name_of(A_ID)] = ("str", s)
        elif it == "type":
            s = ascii_text(rng, 12) if rng.random() > 0.04 else datetime_lookalike_text(rng)
            elements.append(ce.aidon_element(A_TYPE, "str", s))
            expect[names.name_of(A_TYPE)] = ("str", s)
        elif it == "clock":
            dt12, spec = gen_datetime(rng)
            elements.append(ce.aidon_element(clock_code(rng, A_CLOCK, tags), "datetime", dt12))
            expect["meter_datetime"] = ("dt", spec)
        else:
            code, kind, exp, unit = it
            if rng.random() < 0.15:
                kind = rng.choice(("u32", "i16", "u16"))
            if vary_scaler:
                exp = rng.randint(-3, 3)
            reg = register(rng, kind)
            elements.append(ce.aidon_element(code, kind, reg, exp, unit))
            expect[names.name_of(code)] = scaled(reg, exp)
            tags.append(f"{kind}:exp{exp}")
            lo, hi = ce.RANGES[kind]
            if reg in (lo, hi):
                tags.append(f"{kind}:boundary")
            if reg < 0:
                tags.append("negative_register")
    body = ce.aidon_body(elements)
    dt12, tagged, _spec = apdu_variant(rng, allow_null=True)
    frame = ce.apdu(body, dt12, tagged)
    return Case("aidon", layout, body, frame, expect, dict(expect), tags)


# ------------------------------------------------------------------------------ Kaifa

K_OBIS = {
    "list_ver_id": (1, 1, 0, 2, 129, 255), "meter_id": (0, 0, 96, 1, 0, 255), "meter_type": (0, 0, 96, 1, 7, 255),
    "active_power_import": (1, 0, 1, 7, 0, 255), "active_power_export": (1, 0, 2, 7, 0, 255),
    "reactive_power_import": (1, 0, 3, 7, 0, 255), "reactive_power_export": (1, 0, 4, 7, 0, 255),
    "current_l1": (1, 0, 31, 7, 0, 255), "current_l2": (1, 0, 51, 7, 0, 255), "current_l3": (1, 0, 71, 7, 0, 255),
    "voltage_l1": (1, 0, 32, 7, 0, 255), "voltage_l2": (1, 0, 52, 7, 0, 255), "voltage_l3": (1, 0, 72, 7, 0, 255),
    "meter_datetime": (0, 0, 1, 0, 0, 255),
    "active_power_import_total": (1, 0, 1, 8, 0, 255), "active_power_export_total": (1, 0, 2, 8, 0, 255),
    "reactive_power_import_total": (1, 0, 3, 8, 0, 255), "reactive_power_export_total": (1, 0, 4, 8, 0, 255),
}


def _kaifa_value(rng, name, tags):
    """(encoded value, expected) for one field of a Kaifa list."""
    if name in names.KAIFA_STRING_FIELDS:
        s = ascii_text(rng, lengths=(0, 1, 7, 8, 12, 12, 16, rng.randint(0, 30))) if rng.random() < 0.6 else {"list_ver_id": "KFM_001", "meter_id": "6970631402614476", "meter_type": rng.choice(("MA304H3E", "MA304H4", "MA105H2E"))}[name]
        if len(s) == 12:
            tags.append("string_of_12")
        return ce.octet_string(s.encode("ascii")), ("str", s)
    if name == "meter_datetime":
        dt12, spec = gen_datetime(rng)
        return ce.datetime_octets(dt12), ("dt", spec)
    reg = register(rng, "u32")
    if reg in (0, 2**32 - 1):
        tags.append("u32:boundary")
    if name in names.KAIFA_CURRENT_FIELDS:
        return ce.u32(reg), ("float", reg / 1000)
    if name in names.KAIFA_VOLTAGE_FIELDS:
        return ce.u32(reg), ("float", reg / 10)
    return ce.u32(reg), ("int", reg)


def kaifa_case(rng, layout: str | None = None) -> Case:
    tags = []
    if layout is None:
        layout = rng.choice(("1", "9", "13", "14", "18", "se"))
    expect_body = {"meter_manufacturer": ("str", "Kaifa")}
    if layout == "se":
        order = names.KAIFA_LAYOUTS[18]
        pairs = []
        for name in order:
            enc, exp = _kaifa_value(rng, name, tags)
            pairs.append((clock_code(rng, K_OBIS[name], tags) if name == "meter_datetime" else K_OBIS[name], enc))
            expect_body[name] = exp
        body = ce.kaifa_obis_body(pairs)
        dt12, tagged, _spec = apdu_variant(rng, allow_null=True)
        frame = ce.apdu(body, dt12, tagged)
        return Case("kaifa", "se", body, frame, expect_body, dict(expect_body), tags)
    order = names.KAIFA_LAYOUTS[int(layout)]
    values = []
    for name in order:
        enc, exp = _kaifa_value(rng, name, tags)
        values.append(enc)
        expect_body[name] = exp
    dt12, tagged, spec = apdu_variant(rng, allow_null=False)
    if "meter_datetime" in expect_body and rng.random() < 0.25:
        # the list clock names the same instant as the APDU clock, in another deviation (or the very same civil time)
        alt = same_instant_other_deviation(rng, spec)
        if alt is not None:
            a12, aspec = alt
            pos = order.index("meter_datetime")
            values[pos] = ce.datetime_octets(a12)
            expect_body["meter_datetime"] = ("dt", aspec)
            tags.append("list_clock_same_instant_as_apdu")
    elif "meter_datetime" in expect_body and dt12 is not None and rng.random() < 0.2:
        # the list clock shows the same civil second as the APDU clock but carries neither hundredths nor a deviation
        y, mo, d, h, mi, s_ = spec["civil"]
        plain12 = ce.datetime12(y, mo, d, 0xFF, h, mi, s_, None, None, rng.choice((0, 0xFF, 0x80)))
        pos = order.index("meter_datetime")
        values[pos] = ce.datetime_octets(plain12)
        expect_body["meter_datetime"] = ("dt", dict(spec, us=0, offset_min=None, deviation=None, hundredths=None))
        tags.append("list_clock_same_second_as_apdu_without_hundredths_and_deviation")
    body = ce.kaifa_value_body(values)
    frame = ce.apdu(body, dt12, tagged)
    expect_frame = dict(expect_body)
    if "meter_datetime" not in expect_frame:
        expect_frame["meter_datetime"] = ("dt", spec)
        tags.append("clock_from_apdu_" + ("tagged" if tagged else "untagged"))
    else:
        tags.append("clock_from_list_wins")
    return Case("kaifa", layout, body, frame, expect_body, expect_frame, tags)


# --------------------------------------------------------------------------- Kamstrup

def _k(c, d):
    return (1, 1, c, d, 0, 255)


KM_ID, KM_TYPE, KM_CLOCK = (1, 1, 0, 0, 5, 255), (1, 1, 96, 1, 1, 255), (0, 1, 1, 0, 0, 255)
KM_P = [_k(1, 7), _k(2, 7), _k(3, 7), _k(4, 7)]
KM_I = [_k(31, 7), _k(51, 7), _k(71, 7)]
KM_U = [_k(32, 7), _k(52, 7), _k(72, 7)]
KM_E = [_k(1, 8), _k(2, 8), _k(3, 8), _k(4, 8)]

KAMSTRUP_LAYOUTS = {
    "list1_3ph": ["id", "type"] + KM_P + KM_I + KM_U,
    "list1_1ph": ["id", "type"] + KM_P + [KM_I[0], KM_U[0]],
    "list2_3ph": ["id", "type"] + KM_P + KM_I + KM_U + ["clock"] + KM_E,
    "list2_1ph": ["id", "type"] + KM_P + [KM_I[0], KM_U[0]] + ["clock"] + KM_E,
    "list2_1ph_1q": ["id", "type", KM_P[0], KM_I[0], KM_U[0], "clock", KM_E[0]],
    "se_list": ["id", "type"] + KM_P + KM_I + KM_U,
}


def meter_type_text(rng) -> str:
    prefix = rng.choice(("685", "685", "684", "686", "68", "585", "6851", "", "6 85", " 685", "\t685", "0685", "685 ", "\x00685", "685\x00"))
    return prefix + "".join(rng.choice("0123456789ABN") for _ in range(rng.choice((0, 3, 15 - min(15, len(prefix))))))


def kamstrup_case(rng, layout: str | None = None, ct: bool | None = None) -> Case:
    tags = []
    if layout is None:
        layout = rng.choice(list(KAMSTRUP_LAYOUTS))
    items = KAMSTRUP_LAYOUTS[layout]
    mtype = meter_type_text(rng)
    if ct is True:
        mtype = "685" + mtype[3:] if len(mtype) >= 3 else "6851138BN245101090"
    if ct is False and mtype.startswith("685"):
        mtype = "684" + mtype[3:]
    is_ct = mtype.startswith("685")
    tags.append("ct_meter" if is_ct else "non_ct_meter")
    # the list version as documented, as a later firmware might count it, or any text
    ver = rng.choice(("Kamstrup_V0001", "Kamstrup_V0001", "Kamstrup_V%04d" % rng.choice((0, 2, 3, 10, 100, 9999)), "Kamstrup_V2", "KAMSTRUP_V0001", ascii_text(rng, 14, 1)))
    expect = {"meter_manufacturer": ("str", "Kamstrup"), "list_ver_id": ("str", ver)}
    pairs = []
    for it in items:
        if it == "id":
            s = ascii_text(rng, 16) if rng.random() > 0.04 else datetime_lookalike_text(rng)
            pairs.append((KM_ID, ce.visible_string(s)))
            expect["meter_id"] = ("str", s)
        elif it == "type":
            pairs.append((KM_TYPE, ce.visible_string(mtype)))
            expect["meter_type"] = ("str", mtype)
        elif it == "clock":
            dt12, spec = gen_datetime(rng)
            pairs.append((clock_code(rng, KM_CLOCK, tags), ce.datetime_octets(dt12)))
            expect["meter_datetime"] = ("dt", spec)
        else:
            code = it
            name = names.name_of(code)
            if code in KM_U:
                reg = register(rng, "u16")
                pairs.append((code, ce.u16(reg)))
                expect[name] = ("int", reg)
            else:
                reg = register(rng, "u32")
                pairs.append((code, ce.u32(reg)))
                if code in KM_I:
                    expect[name] = ("approx", Fraction(reg, 1000 if is_ct else 100))
                    if reg:
                        tags.append("nonzero_current")
                elif code in KM_E:
                    expect[name] = ("int", reg * 10)
                    if reg:
                        tags.append("nonzero_energy")
                else:
                    expect[name] = ("int", reg)
    r = rng.random()
    if r < 0.4:
        padding = [0] * (len(pairs) + 1)
    elif r < 0.7:
        padding = [rng.choice((0, 0, 4, rng.randint(0, 9))) for _ in range(len(pairs) + 1)]
        tags.append("null_padding")
    elif r < 0.93:
        padding = [rng.randint(0, 9) for _ in range(len(pairs) + 1)]
        tags.append("null_padding")
    else:
        # "any amount": one long run (beyond any read-ahead a parser might use) after one element
        padding = [0] * (len(pairs) + 1)
        padding[rng.randrange(len(padding))] = rng.choice((63, 64, 65, 100, 129, 200))
        tags.append("null_padding")
        tags.append("long_null_padding")
    body = ce.kamstrup_body(ver, pairs, padding)
    dt12, tagged, spec = apdu_variant(rng, allow_null=False)
    frame = ce.apdu(body, dt12, tagged, invoke=b"\x00\x00\x00\x00")
    expect_frame = dict(expect)
    expect_frame["meter_datetime"] = ("dt", spec)
    tags.append("apdu_" + ("tagged" if tagged else "untagged"))
    return Case("kamstrup", layout, body, frame, expect, expect_frame, tags)
