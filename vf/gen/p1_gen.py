"""Workload generator for P1 (IEC 62056-21 mode D) streams."""
from __future__ import annotations

from vf.ref import crc16, p1_ref

STRUCT = b"/!\n\r()*"
HEXCH = b"0123456789ABCDEFabcdef"


class IdSource:
    def __init__(self, rng):
        self.n = rng.randrange(1 << 24)

    def next(self) -> bytes:
        self.n += 1
        return b"%010d" % self.n


DSMR_LINES = (
    "1-3:0.2.8({v2})", "0-0:1.0.0(2{v2}0102120000W)", "0-0:96.1.1(4B384547303034303436333935353037)", "1-0:1.8.1(00{v6}.{v3}*kWh)", "1-0:2.8.2(000000.000*kWh)",
    "0-0:96.14.0(000{d})", "1-0:1.7.0(0{d}.{v3}*kW)", "0-0:96.7.21(0000{d})", "1-0:99.97.0(2)(0-0:96.7.19)(101208152415W)(0000000240*s)(101208151004W)(0000000301*s)",
    "1-0:32.32.0(0000{d})", "0-0:96.13.0()", "1-0:32.7.0(2{v2}.{d}*V)", "1-0:31.7.0(0{v2}*A)", "0-1:24.1.0(003)", "0-1:96.1.0(3232323241424344313233343536373839)",
    "0-1:24.2.1(101209112500W)({v2}785.{v3}*m3)", "1-0:1.6.0*0{d}(0004.{v3}*kW)", "1-0:1.6.0*0{d}(0128)",
)


def dsmr_line(rng) -> bytes:
    """Lines that real DSMR/ESMR meters send (version line, equipment ids, logs, M-Bus sub-meters, historical values)."""
    t = rng.choice(DSMR_LINES)
    return t.format(v2="%02d" % rng.choice((22, 40, 42, 50, 51, rng.randrange(100))), v3="%03d" % rng.randrange(1000), v6="%04d" % rng.randrange(10000), d=rng.randrange(10)).encode()


def data_line(rng, ids: IdSource | None = None) -> bytes:
    if rng.random() < 0.2:
        return dsmr_line(rng)
    addr, _ = p1_ref.reduced_address(rng)
    r = rng.random()
    if ids is not None and r < 0.5:
        return addr.encode() + b"(" + ids.next() + b")"
    if r < 0.8:
        unit = rng.choice(p1_ref.UNITS_K + p1_ref.UNITS_PLAIN)
        return f"{addr}({p1_ref.decimal_text(rng, 6)}*{unit})".encode()
    return f"{addr}({rng.randrange(10**8)})".encode()


def strict_readout(rng, ids: IdSource | None = None, n_lines: int | None = None, checksum="correct",
                   eol: bytes | None = None) -> bytes:
    """A well-formed all-ASCII readout."""
    ident, _m, _i = p1_ref.strict_ident(rng, with_id=rng.random() < 0.9)
    if eol is None:
        eol = rng.choice((b"\r\n", b"\r\n", b"\n"))
    if n_lines is None:
        n_lines = rng.choice((0, 1, 2, 5, 12, 30, rng.randint(0, 60)))
    lines = []
    if ids is not None:
        lines.append(b"0-0:96.1.0(" + ids.next() + b")")
    lines += [data_line(rng, ids) for _ in range(n_lines)]
    if rng.random() < 0.08:
        # one long line (e.g. the DSMR text message 0-0:96.13.0 with up to 2048 hex digits); the readout stays well below 8 KiB
        lines.insert(rng.randint(0, len(lines)), b"0-0:96.13.0(" + bytes(rng.choice(b"0123456789ABCDEF") for _ in range(rng.choice((1000, 1030, 2048, 3000)))) + b")")
        while sum(map(len, lines)) > 6500 and len(lines) > 1:
            lines.pop(0 if not lines[0].startswith(b"0-0:96.13.0(") else 1)
    blank = rng.random() < 0.7
    return p1_ref.build_readout(ident, lines, eol, checksum, blank)


class Template:
    """Readouts of identical length that differ only in a fixed-width id (for chunk sizes that never fall between readouts)."""

    def __init__(self, rng, n_lines: int, checksum="correct"):
        self.ident, _m, _i = p1_ref.strict_ident(rng)
        self.eol = rng.choice((b"\r\n", b"\n"))
        self.lines = [data_line(rng, None) for _ in range(n_lines)]
        self.blank = rng.random() < 0.7
        self.checksum = checksum

    def make(self, ids: IdSource) -> bytes:
        lines = [b"0-0:96.1.0(" + ids.next() + b")"] + self.lines
        return p1_ref.build_readout(self.ident, lines, self.eol, self.checksum, self.blank)


def with_checksum_text(readout: bytes, text: bytes) -> bytes:
    """Replace whatever follows the (single) '!' by text, keeping the line end."""
    e = readout.rfind(b"!")
    tail = readout[e + 1 :]
    eol = b"\r\n" if tail.endswith(b"\r\n") else b"\n"
    return readout[: e + 1] + text + eol


def correct_checksum(readout: bytes) -> int:
    e = readout.rfind(b"!")
    return crc16.crc16(readout[: e + 1])


def noise(rng, n: int, flavour: str | None = None) -> tuple[bytes, str]:
    flavour = flavour or rng.choice(("random", "struct", "ident_like", "ascii", "high", "bang_tail", "bang_in_ident", "binary_hdlc", "idle_line", "idle_line", "truncated_readout_then_short_lines"))
    if flavour == "truncated_readout_then_short_lines":
        # a readout that never gets its end line, followed by hundreds of very short lines (line-end chatter) in well under 8 KiB
        ident, _, _ = p1_ref.strict_ident(rng)
        k = rng.choice((300, 520, 600, 1000, 2000))
        short = rng.choice((b"\r\n", b"\n", b"x\n", b"\r\n\n", b"0\r\n"))
        out = ident + b"\r\n1-0:1.8.0(000001.000*kWh)\r\n" + short * min(k, 8000 // len(short))
        return out, flavour
    if flavour == "idle_line":
        # what a serial line carries between two messages: break / idle characters (NUL, 0xFF), flow control, stray line ends
        def gap():
            kind = rng.choice(("nul", "nul", "ff", "blank", "xon_xoff", "crlf", "nul_after_lf", "mixed", "none"))
            k = rng.choice((1, 2, 3, 8, 40))
            return {"nul": b"\x00" * k, "ff": b"\xff" * k, "blank": b" " * k, "xon_xoff": b"\x11\x13" * k, "crlf": b"\r\n" * k, "nul_after_lf": b"\n" + b"\x00" * k,
                    "mixed": bytes(rng.choice(b"\x00\xff \r\n\x11\x13\x07") for _ in range(k)), "none": b""}[kind]

        out = gap()
        for _ in range(rng.randint(1, 4)):
            out += strict_readout(rng, None, rng.choice((0, 1, 3)), checksum=rng.choice(("correct", None))) + gap()
        return out, flavour
    if flavour == "random":
        out = rng.randbytes(n)
    elif flavour == "struct":
        out = bytes(rng.choice(STRUCT) if rng.random() < 0.4 else rng.randrange(256) for _ in range(n))
    elif flavour == "ident_like":
        pre = rng.choice((b"/AB?5", b"/ABC5", b"/ab35", b"/KFM5KAIFA-METER", b"/ELL5\\253833635_A", b"/AB"))
        body = bytes(rng.choice(STRUCT + b"019AFaf") if rng.random() < 0.5 else rng.randrange(256) for _ in range(n))
        out = pre + body + rng.choice((b"\n", b"\r\n", b""))
    elif flavour == "ascii":
        out = bytes(rng.choice(STRUCT) if rng.random() < 0.3 else rng.randrange(0x20, 0x7F) for _ in range(n))
    elif flavour == "high":
        out = b"/" + bytes(rng.randrange(0x80, 0x100) if rng.random() < 0.5 else rng.randrange(0x20, 0x7F) for _ in range(n)) + b"\n"
    elif flavour == "bang_tail":
        ident, _, _ = p1_ref.strict_ident(rng)
        tail = rng.choice((b"12G4", b"zzzz", b"\xff\xfe", b"12", b"12345", b"0x1F", b" 1F2 ", bytes([rng.randrange(256) for _ in range(4)]),
                           # a long run of hexadecimal digits where four are expected (a number of thousands of digits), also with one stray character
                           bytes(rng.choice(b"0123456789ABCDEFabcdef") for _ in range(rng.choice((16, 100, 1000, 3600, 4300, 5000, 7900)))) + rng.choice((b"", b"", b"G", b" 1"))))
        out = ident + b"\r\n1-0:1.8.0(1*kWh)\r\n!" + tail + rng.choice((b"\r\n", b"\n"))
    elif flavour == "bang_in_ident":
        out = b"/ABC5id!" + rng.choice((b"", b"AB", b"1F2E", b"\xff")) + b"\r\n1.8.0(1)\r\n!" + rng.choice((b"", b"ABCD")) + b"\r\n"
    else:  # binary_hdlc: what the P1 reader sees while an HDLC meter is talking
        out = b"\x7e\xa0" + rng.randbytes(n).replace(b"\n", b"\n/") + b"\x7e"
    return out, flavour
