"""Run one shard of one property in a fresh interpreter.

usage: python -m vf.worker <PROP> <shard.json> <result.json>
"""
from __future__ import annotations

import importlib
import json
import sys
import time
import traceback

from vf import env
from vf.ctx import Ctx


def main() -> int:
    prop, shard_path, result_path = sys.argv[1:4]
    with open(shard_path) as fh:
        job = json.load(fh)
    ctx = Ctx(prop, job["tier"], job["seed"], job["shard"])
    t0 = time.time()
    try:
        from vf.mon import clock

        clock.install()
        from vf.mon import reach

        reach.install(env.REPO)
        env.import_han()
        env.rotate_environment(ctx, job["shard"].get("index", 0))
        mod = importlib.import_module(f"vf.props.{prop.lower()}")
        try:
            mod.run(job["shard"], ctx)
        finally:
            from vf.mon import containers

            containers.report(ctx)
            # which library modules this interpreter ended up importing (an application that reads one meter imports one decoder)
            ctx.seen("library_modules_imported_by_a_worker", ",".join(sorted(m[4:] for m in sys.modules if m.startswith("han."))))
    except env.Inconclusive as ex:
        ctx.note_inconclusive(str(ex))
    except BaseException:  # harness failure is never a verdict on the repository
        ctx.note_inconclusive("harness error in worker: " + traceback.format_exc()[-1500:])
    res = ctx.result(result_path + ".digests")
    res["wall_s"] = time.time() - t0
    try:
        from vf.mon import reach

        res["reached"] = reach.snapshot()
    except Exception:
        res["reached"] = {}
    with open(result_path, "w") as fh:
        json.dump(res, fh)
    return 0


if __name__ == "__main__":
    sys.exit(main())
