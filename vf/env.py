"""Process environment shared by the runner and the workers.

Every process that executes repository code calls ``setup()`` first: it puts
the tree under test ($VERIF_REPO, default /repo) at the front of ``sys.path``,
switches the library's logging off (the readers log every invalid frame) and
verifies afterwards that ``han`` really was imported from that tree.
"""
from __future__ import annotations

import logging
import os
import sys

ROOT = os.path.dirname(os.path.dirname(os.path.abspath(__file__)))
REPO = os.path.realpath(os.environ.get("VERIF_REPO", "/repo"))
PYTHON = os.environ.get("VERIF_PYTHON", "/venv/bin/python")


class Inconclusive(Exception):
    """The check could not decide (environment problem, monitor not reached)."""


def setup() -> None:
    sys.dont_write_bytecode = True
    if sys.path[0] != REPO:
        sys.path.insert(0, REPO)
    logging.disable(logging.CRITICAL)


def import_han():
    """Import ``han`` and make sure it is the tree under test."""
    setup()
    try:
        import han  # noqa
    except Exception as ex:  # pragma: no cover - environment problem
        raise Inconclusive(f"cannot import han from {REPO}: {ex!r}")
    where = os.path.realpath(os.path.dirname(han.__file__))
    if where != os.path.join(REPO, "han"):
        raise Inconclusive(f"han imported from {where}, expected {REPO}/han")
    return han


def scratch_dir() -> str:
    """Directory for short-lived files of one run (removed by the runner)."""
    import tempfile

    base = "/dev/shm" if os.path.isdir("/dev/shm") and os.access("/dev/shm", os.W_OK) else None
    return tempfile.mkdtemp(prefix="vf-", dir=base)


def rotate_environment(ctx, shard_index: int) -> None:
    """Behaviour must not depend on the process environment: shards rotate through logging configurations and time zones.

    index % 4 == 1: library logging enabled at DEBUG (records go to a NullHandler, nothing is printed);
    index % 4 == 3: TZ=Europe/Oslo (a zone with daylight saving); otherwise logging disabled and the sandbox's zone;
    index % 8 == 6: warnings are errors; index % 8 == 5: the runner starts the interpreter with -O (asserts stripped);
    in every shard the monitors make the clocks jump between calls (vf/mon/clock.py).
    """
    import time

    if shard_index % 8 == 6:
        # warnings escalated to errors, as under `python -W error` (deprecations excepted: CPython 3.12 itself deprecates calls the library makes)
        import warnings

        warnings.simplefilter("error")
        for cat in (DeprecationWarning, PendingDeprecationWarning, ResourceWarning, ImportWarning):
            warnings.simplefilter("default", cat)
        # ... but a deprecation raised *by* the library's own modules is an error as well (han.meter_connection excepted: it calls
        # datetime.utcnow(), which CPython 3.12 deprecates)
        warnings.filterwarnings("error", category=DeprecationWarning, module=r"han\.(?!meter_connection)")
        ctx.seen("environment", "warnings are errors")
    if __debug__ is False:
        ctx.seen("environment", "python -O (asserts stripped)")
    if sys.flags.bytes_warning >= 2:
        # (only where the unchanged tree is clean under it: han/dlde.py itself compares an int with bytes, so this is used for han/obis.py and the three DLMS decoders, not for the P1 code)
        ctx.seen("environment", "python -bb (comparing bytes with str is an error)")
    if shard_index % 6 == 4:
        # an application that serves several kinds of meter has imported the other decoders first, in whatever order
        import importlib

        for name in ("kamstrup", "dlde", "aidon", "kaifa", "autodecoder", "hdlc", "meter_connection"):
            try:
                importlib.import_module("han." + name)
            except Exception:
                pass
        ctx.seen("environment", "every library module imported first (kamstrup, dlde, aidon, kaifa, ...)")
    mode = shard_index % 4
    if mode == 1:
        logging.disable(logging.NOTSET)
        root = logging.getLogger()
        root.handlers[:] = [logging.NullHandler()]
        root.setLevel(logging.DEBUG)
        logging.getLogger("han").setLevel(logging.DEBUG)
        ctx.seen("environment", "logging=DEBUG(NullHandler)")
    elif mode == 3:
        os.environ["TZ"] = "Europe/Oslo"
        time.tzset()
        ctx.seen("environment", "TZ=Europe/Oslo")
    else:
        ctx.seen("environment", "logging disabled, TZ as in the sandbox")
