"""What a property module talks to while it runs one shard.

The context only *records*: evaluations, distinct non-trivial cases (as 64-bit
digests, unioned by the runner over all shards), named counters, named sets of
observed states, samples, and violations with a mechanism signature.
"""
from __future__ import annotations

import array
import hashlib
import json
import random
from typing import Any

MAX_VIOLATIONS_PER_SIG = 5
MAX_SAMPLES = 6


def digest64(key: bytes | str) -> int:
    if isinstance(key, str):
        key = key.encode("utf-8", "surrogatepass")
    return int.from_bytes(hashlib.blake2b(key, digest_size=8).digest(), "big")


def jsonable(obj: Any) -> Any:
    """Turn a case description into something json.dump accepts (bytes -> hex)."""
    if isinstance(obj, (bytes, bytearray)):
        return {"hex": bytes(obj).hex()}
    if isinstance(obj, dict):
        return {str(k): jsonable(v) for k, v in obj.items()}
    if isinstance(obj, (list, tuple)):
        return [jsonable(v) for v in obj]
    if isinstance(obj, (int, float, str, bool)) or obj is None:
        return obj
    return repr(obj)


def unjson(obj: Any) -> Any:
    if isinstance(obj, dict):
        if set(obj) == {"hex"}:
            return bytes.fromhex(obj["hex"])
        return {k: unjson(v) for k, v in obj.items()}
    if isinstance(obj, list):
        return [unjson(v) for v in obj]
    return obj


class Ctx:
    def __init__(self, prop: str, tier: str, seed: int, shard: dict):
        self.prop = prop
        self.tier = tier
        self.seed = seed
        self.shard = shard
        self.evaluations = 0
        self.digests = array.array("Q")
        self._digest_seen: set[int] = set()
        self.distinct_by_construction = 0
        self.counters: dict[str, int] = {}
        self.sets: dict[str, set[str]] = {}
        self.samples: list[Any] = []
        self.violations: list[dict] = []
        self.violation_counts: dict[str, int] = {}
        self.inconclusive: list[str] = []
        self.maxima: dict[str, float] = {}

    # ------------------------------------------------------------------ rng
    def rng(self, *extra: Any) -> random.Random:
        """Deterministic generator for (seed, property, shard index, extra...)."""
        key = json.dumps([self.seed, self.prop, self.shard.get("index", 0), list(extra)])
        return random.Random(digest64(key))

    # ------------------------------------------------------------ recording
    def case(self, key: bytes | str | None, nontrivial: bool = True, n: int = 1) -> None:
        """One executed case. ``key`` identifies it for distinct counting."""
        self.evaluations += n
        if nontrivial and key is not None:
            d = digest64(key)
            if d not in self._digest_seen:
                self._digest_seen.add(d)
                self.digests.append(d)

    def enumerated(self, n_cases: int, n_nontrivial: int) -> None:
        """Cases that are distinct by construction (complete enumerations)."""
        self.evaluations += n_cases
        self.distinct_by_construction += n_nontrivial

    def count(self, name: str, n: int = 1) -> None:
        self.counters[name] = self.counters.get(name, 0) + n

    def maximum(self, name: str, value: float) -> None:
        if value > self.maxima.get(name, float("-inf")):
            self.maxima[name] = value

    def seen(self, setname: str, value: Any) -> None:
        s = self.sets.setdefault(setname, set())
        if len(s) < 5000:
            s.add(str(value))

    def sample(self, obj: Any) -> None:
        if len(self.samples) < MAX_SAMPLES:
            self.samples.append(jsonable(obj))

    def violation(self, sig: str, msg: str, case: Any) -> None:
        """An oracle fired. ``sig`` names the mechanism, never random values."""
        n = self.violation_counts.get(sig, 0)
        self.violation_counts[sig] = n + 1
        if n < MAX_VIOLATIONS_PER_SIG:
            self.violations.append({"sig": sig, "msg": msg, "case": jsonable(case)})

    def note_inconclusive(self, reason: str) -> None:
        if reason not in self.inconclusive:
            self.inconclusive.append(reason)

    # --------------------------------------------------------------- result
    def result(self, digests_path: str | None) -> dict:
        if digests_path is not None:
            with open(digests_path, "wb") as fh:
                self.digests.tofile(fh)
        return {
            "evaluations": self.evaluations,
            "digests_file": digests_path,
            "n_digests": len(self.digests),
            "distinct_by_construction": self.distinct_by_construction,
            "counters": self.counters,
            "maxima": self.maxima,
            "sets": {k: sorted(v) for k, v in self.sets.items()},
            "samples": self.samples,
            "violations": self.violations,
            "violation_counts": self.violation_counts,
            "inconclusive": self.inconclusive,
        }
