"""C15 - AutoDecoder returns a dictionary or None for every input, and terminates.

Monitors around every AutoDecoder.decode_message_payload()/decode_message() call:
 (a) exception monitor - anything escaping is a violation ('<type>@<module>.<function>');
 (b) logical step budget (vf/mon/steps.py, sys.monitoring): 50 000 + 2 000 x len(input)
     PY_START/JUMP/BRANCH events, >50x above what genuine messages need; exceeding it
     is the verdict 'does not terminate within the polynomial bound';
 (c) tracemalloc peak <= 2 MiB + 20 KiB x len(input) on a sample of the calls;
 (d) CPU-time budget of 20 s per call (ITIMER_VIRTUAL: this process's own CPU time, independent of machine load; genuine
     calls need milliseconds) for loops inside C code such as a backtracking regular expression, which produce no
     interpreter events.
Workload: random bytes, truncations and 1..5-octet mutations of genuine messages of
every list type, date-time octets forced to FF, ASCII fragments with unbalanced
parentheses, a size sweep - each with every remembered-decoder state.
"""
from __future__ import annotations

import tracemalloc

from vf.gen import pool
from vf.mon import p1_mon, steps

ID = "C15"
LEVEL = "exploration"
RULE = (
    "input = random bytes (0..300) | truncation / 1..5-octet tag-aware mutation / FF run / insertion / deletion / tag swap of a genuine message (28 fixture messages, generated lists of the three vendors in both forms, "
    "Kaifa list-1 messages whose register holds '(' / ')' octets, P1 blocks) | ASCII fragment over 0-9 . : - ( ) * CR LF with unbalanced parentheses and trailing garbage, numeric extremes (inf, nan, 1e309, 400 digits) in unit-converted values, runs of 25..1500 characters of one class followed by a character of another class in value / unit / address position | structured junk (well-formed Kaifa value lists of undocumented lengths, frames with other LLC octets, unknown Kamstrup OBIS, null APDU date-time, FF date-time fields) | size sweep to 8 KiB | a fixed corpus of ~700 pathological inputs (runs of 30/60/400 characters of one class + terminator in value, unit and address position; structures nested 10..60 deep) probed on every run; "
    "each input is given to an AutoDecoder in each of the 8 remembered-decoder states (fresh + primed with a streak of 1..9 genuine messages of each of the 7 decoders), through decode_message_payload and through "
    "decode_message(DlmsMessage / DataReadout). evaluations = monitored calls; distinct non-trivial = distinct (input, state) pairs where the input is not itself a genuine message."
)
ASSUMPTIONS = [
    "'time bounded by a small polynomial' is decided as the logical step budget 50 000 + 2 000 x len(input) (linear); genuine messages use < 40 steps per octet",
    "memory bound 2 MiB + 20 KiB x len(input) by tracemalloc peak on every 10th call",
    "CPU-time bound 20 s per call (process CPU time, >400x what the largest genuine message needs under monitoring) decides loops that run inside C code",
]
WATCHDOG_S = {"quick": 900, "thorough": 7200}
N = {"quick": 330, "thorough": 19000}


def plan(tier, seed):
    return [{"n": N[tier]} for _ in range(16)]


def budget_for(n: int) -> int:
    return 50_000 + 2_000 * n


class Harness:
    def __init__(self, ctx, rng):
        from han.autodecoder import AutoDecoder

        self.AutoDecoder = AutoDecoder
        self.ctx = ctx
        self.rng = rng
        self.budget = steps.StepBudget()
        self.genuine = pool.genuine(rng)
        self.primers = {}
        for label, fam, form, data in self.genuine:
            name = pool.own_decoder(fam, form)
            self.primers.setdefault(name, data)
        self.calls = 0

    def primed(self, state):
        dec = self.AutoDecoder()
        if state is not None:
            # a streak of 1..12 successes of the same decoder (an implementation may treat an 'established' meter specially)
            streak = self.rng.choice((1, 1, 1, 1, 2, 5, 6, 9))
            self.ctx.seen("primer_streak_lengths", streak)
            try:
                for _ in range(streak):
                    dec.decode_message_payload(self.primers[state])
            except BaseException:
                self.ctx.count("primer_raised")
            if dec.previous_success_decoder != state:
                self.ctx.count("primer_selected_other_decoder")
            else:
                self.ctx.count(f"state_{state}")
        else:
            self.ctx.count("state_fresh")
        return dec

    def monitored(self, fn, data: bytes, case: dict, api: str):
        self.calls += 1
        sample_mem = self.calls % 10 == 0
        if sample_mem:
            tracemalloc.start()
        res, exc, used = self.budget.call(fn, budget_for(len(data)))
        if sample_mem:
            _cur, peak = tracemalloc.get_traced_memory()
            tracemalloc.stop()
            self.ctx.count("memory_samples")
            self.ctx.maximum("max_tracemalloc_peak_bytes", peak)
            if peak > (2 << 20) + 20 * 1024 * len(data):
                self.ctx.violation("C15:memory-bound", f"{api}: tracemalloc peak {peak} bytes for {len(data)} input octets", case)
        self.ctx.count("monitored_calls")
        self.ctx.maximum("max_steps_in_one_call", used)
        if len(data) >= 64:
            self.ctx.maximum("max_steps_per_input_octet(len>=64)", used / len(data))
        self.ctx.maximum("max_cpu_seconds_in_one_call", round(self.budget.max_cpu_s, 3))
        if isinstance(exc, steps.CpuBudgetExceeded) or self.budget.cpu_exceeded:
            self.ctx.violation(f"C15:cpu-budget-exceeded:{p1_mon.where_entry(exc) if exc else 'swallowed'}",
                               f"{api}: more than {steps.CPU_LIMIT_S} s of CPU time for {len(data)} input octets ({data[:50]!r}) - logical steps so far {used}", case)
        elif isinstance(exc, steps.BudgetExceeded) or self.budget.exceeded:
            self.ctx.violation(f"C15:step-budget-exceeded:{p1_mon.where_entry(exc) if exc else 'swallowed'}",
                               f"{api}: more than {budget_for(len(data))} logical steps for {len(data)} input octets ({data[:40]!r})", case)
        elif exc is not None:
            self.ctx.violation(f"C15:exception:{p1_mon.where(exc)}", f"{api} raised {exc!r:.160} for input {data[:40].hex()}..", case)
        elif res is not None and not isinstance(res, dict):
            self.ctx.violation("C15:result-type", f"{api} returned {type(res).__name__}", case)
        else:
            self.ctx.count("returned_dict" if res is not None else "returned_none")

    def probe(self, data: bytes, kind: str, states):
        from han.common import DlmsMessage
        from han.dlde import DataReadout

        for state in states:
            case = {"data": data, "state": state, "kind": kind}
            dec = self.primed(state)
            self.monitored(lambda: dec.decode_message_payload(data), data, dict(case, api="decode_message_payload"), "decode_message_payload")
            dec2 = self.primed(state)
            msg = DlmsMessage(data)
            self.monitored(lambda: dec2.decode_message(msg), data, dict(case, api="decode_message(DlmsMessage)"), "decode_message(DlmsMessage)")
            if kind in ("ascii", "p1_mutation") and b"!" not in data and b"/" not in data:
                try:
                    ro = DataReadout(b"/ABC5x\r\n" + data + b"\r\n!\r\n")
                except Exception:
                    ro = None
                if ro is not None:
                    dec3 = self.primed(state)
                    self.monitored(lambda: dec3.decode_message(ro), data, dict(case, api="decode_message(DataReadout)"), "decode_message(DataReadout)")
            if len(data) <= 1900 and (len(data) + (0 if state is None else len(state))) % 4 == 0:
                # the same octets as information field of HDLC frame objects: ordinary, with the segmentation bit, after a header-only
                # frame (with and without that bit) was given to the same AutoDecoder
                frames = self.frames_for(data)
                if frames:
                    dec4 = self.primed(state)
                    for label, fr in frames:
                        self.monitored(lambda: dec4.decode_message(fr), data, dict(case, api=f"decode_message(HdlcFrame:{label})"), "decode_message(HdlcFrame)")
            self.ctx.case(repr(state).encode() + data, kind != "genuine", 0)

    def frames_for(self, data: bytes):
        from vf.mon import hdlc_mon
        from vf.ref import hdlc_ref

        k = self.calls
        try:
            octs = [("header_only_segmented", hdlc_ref.build(0xA, True, b"\x03", b"\x21", 0x13, b"")), ("segmented", hdlc_ref.build(0xA, True, b"\x03", b"\x21", 0x13, data) if data else None),
                    ("header_only", hdlc_ref.build(0xA, False, b"\x03", b"\x21", 0x13, b"")), ("ordinary", hdlc_ref.build(0xA, False, b"\x03", bytes((0x02, (k % 127) * 2 + 1)), 0x13, data) if data else None),
                    ("header_only_segmented", hdlc_ref.build(0xA, True, b"\x03", b"\x21", 0x13, b"")), ("ordinary_again", hdlc_ref.build(0xA, False, b"\x03", b"\x21", 0x10, data) if data else None)]
        except ValueError:
            return []
        order = [(l, o) for l, o in octs if o is not None]
        if k % 2:
            order = order[2:] + order[:2]
        stream = b"\x7e" + b"\x7e".join(o for _l, o in order) + b"\x7e"
        got = hdlc_mon.new_reader((False, False)).read(stream) if not any(0x7E in o for _l, o in order) else hdlc_mon.new_reader((True, False)).read(b"\x7e" + b"\x7e".join(hdlc_ref.stuff(o) for _l, o in order) + b"\x7e")
        if len(got) != len(order):
            return []
        return [(l, f) for (l, _o), f in zip(order, got)]


STATES = (None,) + pool.DECODER_NAMES


def make_input(rng, genuine):
    r = rng.random()
    if r < 0.12:
        return rng.randbytes(rng.choice((0, 1, 2, 5, 20, 100, 300))), "random"
    if r < 0.72:
        label, fam, form, data = rng.choice(genuine)
        out, kind = pool.mutate(rng, data)
        return out, ("p1_mutation" if fam == "P1" else "mutation:" + kind)
    if r < 0.82:
        return pool.ascii_fragment(rng)
    if r < 0.92:
        data, kind = pool.structured_junk(rng)
        return data, "structured:" + kind
    if r < 0.94:
        label, fam, form, data = rng.choice(genuine)
        return data, "genuine"
    if r < 0.96:
        # freshly generated genuine messages (registers, strings and clocks over their whole domain, e.g. year 1 or 9999 with a deviation)
        from vf.gen import dlms_gen

        c = rng.choice((dlms_gen.aidon_case, dlms_gen.kaifa_case, dlms_gen.kamstrup_case))(rng)
        return (c.frame if rng.random() < 0.5 else c.body), "genuine"
    # size sweep
    n = rng.choice((512, 1024, 2048, 4096, 8192))
    flavour = rng.choice(("random", "p1_lines", "aidon_big", "parens", "nulls"))
    if flavour == "random":
        return rng.randbytes(n), "sweep"
    if flavour == "p1_lines":
        return (b"1-0:1.8.0(000123.456*kWh)\r\n" * (n // 27 + 1))[:n], "sweep"
    if flavour == "parens":
        return (b"(" * (n // 2)) + (b")" * (n // 2)), "sweep"
    if flavour == "nulls":
        return b"\x02\x19\x0a\x0eKamstrup_V0001" + b"\x00" * n, "sweep"
    from vf.ref import cosem_enc as ce

    els = [ce.aidon_element((1, 0, (i % 250) + 1, 7, 0, 255), "u32", i * 7919 % 2**32, -1, ce.UNIT_W) for i in range(min(255, n // 21))]
    return ce.aidon_body(els), "sweep"


def run(shard, ctx):
    rng = ctx.rng(ID)
    h = Harness(ctx, rng)
    try:
        if shard["index"] % 4 == 0:
            # the fixed corpus, split over four shards, fresh decoder and decoder primed with P1
            corpus = pool.canonical_inputs()
            for j, (data, kind) in enumerate(corpus):
                if j % 4 == (shard["index"] // 4) % 4:
                    h.probe(data, "ascii" if data[:1] not in (b"\x01", b"\x02") else "structured", (None, "P1") if j % 3 else (None,))
                    ctx.count("canonical_inputs_probed")
        for i in range(shard["n"]):
            data, kind = make_input(rng, h.genuine)
            ctx.count("input_" + kind.split(":")[0])
            if kind.startswith("mutation:"):
                ctx.count("mutation_" + kind.split(":")[1])
            if kind.startswith("structured:"):
                ctx.count("structured_" + kind.split(":")[1])
            states = STATES if i % 3 == 0 else (None, rng.choice(pool.DECODER_NAMES))
            h.probe(data, kind.split(":")[0], states)
            ctx.evaluations += 0
            if i < 2:
                ctx.sample({"kind": kind, "data": data[:80], "len": len(data), "states": [s or "fresh" for s in states]})
    finally:
        h.budget.close()
    ctx.evaluations += h.calls


def replay(case, ctx):
    import random

    rng = random.Random(0)
    h = Harness(ctx, rng)
    try:
        h.probe(case["data"], case.get("kind", "replay"), [case.get("state")])
    finally:
        h.budget.close()


def finalize(agg, tier):
    c = agg["counters"]
    reasons = [f"workload never produced '{k}'" for k in ["monitored_calls", "memory_samples", "canonical_inputs_probed", "input_ascii", "input_sweep", "input_random", "input_structured", "structured_kaifa_odd_length", "structured_llc_variant", "mutation_truncate", "mutation_ff_run", "returned_dict", "returned_none"]
               + [f"state_{n}" for n in pool.DECODER_NAMES] if c.get(k, 0) == 0]
    return {"step_budget": "50000 + 2000 x len(input)"}, reasons
