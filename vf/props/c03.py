"""C03 - FCS-16 implementation equals the RFC 1662 definition for every input.

Monitor shape: boundary observation of the real update()/checksum/is_good/
compute_checksum() against a bit-serial reference, driven (i) through the
complete step-function domain via the public API (every 16-bit register state
is reached by exactly one two-octet prefix; from each state all 256 next
octets), (ii) over all 2^16 states for the good-FCS residue, (iii) over random
strings, windows and trailers.
"""
from __future__ import annotations

from vf.ref import fcs16

ID = "C03"
LEVEL = "exploration"
RULE = (
    "step function: for two-octet prefix (a,b) [= one of the 2^16 register states] and next octet c, "
    "fresh object, update(a), update(b), update(c) return values + checksum + is_good, and "
    "compute_checksum(abc,0,3), all compared with the bit-serial model; distinct = distinct (a,b,c) (by construction). "
    "random part: byte strings 0..300 with random windows, correct / bit-flipped / swapped trailers; the same window held in a bytearray, memoryview, memoryview slice at a non-zero offset, array, tuple; "
    "pairs of different equal-length strings with the same CRC-32 / Adler-32 / multiset computed back to back; distinct = distinct string digest. "
    "A case is non-trivial when at least one real call was compared with the model (every case is)."
)
ASSUMPTIONS = [
    "vf/ref/fcs16.py (bit-serial, 12 lines) is the RFC 1662 definition; cross-checked in setup against the vector FCS('123456789')=0x906E",
    "exhaustive=true only in the thorough tier, where all 2^24 (state, octet) pairs are executed through the public API",
]
WATCHDOG_S = {"quick": 600, "thorough": 3600}


def plan(tier: str, seed: int) -> list[dict]:
    shards = []
    if tier == "quick":
        # every 64th first octet, rotated by seed so that different seeds cover different slices
        firsts = [(i * 64 + seed) % 256 for i in range(4)]
        for k in range(4):
            shards.append({"kind": "steps", "first_octets": [firsts[k]]})
        shards.append({"kind": "residue", "first_octets": list(range(0, 256))})
        for k in range(4):
            shards.append({"kind": "random", "n": 5000, "part": k})
        for k in range(6):
            shards.append({"kind": "threads", "k": k})
    else:
        for k in range(16):
            shards.append({"kind": "steps", "first_octets": list(range(k * 16, k * 16 + 16))})
        shards.append({"kind": "residue", "first_octets": list(range(0, 256))})
        for k in range(15):
            shards.append({"kind": "random", "n": 40000, "part": k})
        for k in range(40):
            shards.append({"kind": "threads", "k": k})
    return shards


def _cls():
    from han.fastframecheck import FastFrameCheckSequence16

    return FastFrameCheckSequence16


def check_step(F, a: int, b: int, c: int, reg_ab: int, ctx) -> None:
    obj = F()
    obj.update(a)
    r_b = obj.update(b)
    if r_b != reg_ab:
        ctx.violation("C03:update-return", f"update() after {a:02x} {b:02x} returned {r_b:#06x}, model {reg_ab:#06x}", {"kind": "step", "a": a, "b": b, "c": c})
        return
    want = fcs16.step(reg_ab, c)
    got = obj.update(c)
    if got != want:
        ctx.violation("C03:update-return", f"state {reg_ab:#06x} octet {c:#04x}: update() -> {got!r}, model {want:#06x}", {"kind": "step", "a": a, "b": b, "c": c})
    chk = obj.checksum
    if chk != want ^ 0xFFFF:
        ctx.violation("C03:checksum", f"state {reg_ab:#06x} octet {c:#04x}: checksum {chk!r}, model {want ^ 0xFFFF:#06x}", {"kind": "step", "a": a, "b": b, "c": c})
    one = F.compute_checksum(bytes((a, b, c)), 0, 3)
    if one != want ^ 0xFFFF:
        ctx.violation("C03:compute_checksum", f"compute_checksum({a:02x}{b:02x}{c:02x}) = {one!r}, model {want ^ 0xFFFF:#06x}", {"kind": "step", "a": a, "b": b, "c": c})
    good = obj.is_good
    # message a b c is "good" iff (b, c) is the trailer of (a,)
    want_good = fcs16.trailer(bytes((a,))) == bytes((b, c))
    if bool(good) != want_good:
        ctx.violation("C03:is_good", f"after {a:02x} {b:02x} {c:02x}: is_good={good!r}, model {want_good}", {"kind": "step", "a": a, "b": b, "c": c})
    elif want_good:
        ctx.count("good_three_octet_messages")


def run_threads(shard, ctx) -> None:
    """Threads released from a barrier make the first calls of this fresh interpreter at the same moment, then keep going."""
    import sys
    import threading

    F = _cls()
    rng = ctx.rng("threads", shard["k"])
    n_threads = 6
    work = [[rng.randbytes(rng.choice((1, 2, 3, 17, 64, 255, 300))) for _ in range(300)] for _ in range(n_threads)]
    bad: list = []
    barrier = threading.Barrier(n_threads)

    def worker(items):
        barrier.wait()
        for data in items:
            got = F.compute_checksum(data, 0, len(data))
            o = F()
            for b in data:
                o.update(b)
            if got != fcs16.fcs(data) or o.checksum != fcs16.fcs(data):
                bad.append((data, got, o.checksum))

    old = sys.getswitchinterval()
    sys.setswitchinterval(1e-6)
    try:
        ts = [threading.Thread(target=worker, args=(w,)) for w in work]
        for t in ts:
            t.start()
        for t in ts:
            t.join()
    finally:
        sys.setswitchinterval(old)
    ctx.count("checksums_in_concurrent_threads", n_threads * 300)
    ctx.case(f"threads{shard['k']}", True, n_threads * 300)
    for data, got, chk in bad[:3]:
        ctx.violation("C03:differs-under-concurrent-threads", f"in {n_threads} threads at once (first calls of the process): compute_checksum({data.hex()[:40]}) = {got!r}, incremental checksum {chk!r}, model {fcs16.fcs(data):#06x}", {"kind": "random", "data": data})


def run(shard: dict, ctx) -> None:
    if shard.get("kind") == "threads":
        run_threads(shard, ctx)
        return
    F = _cls()
    kind = shard["kind"]
    if kind == "steps":
        n = 0
        for a in shard["first_octets"]:
            reg_a = fcs16.step(0xFFFF, a)
            for b in range(256):
                reg_ab = fcs16.step(reg_a, b)
                for c in range(256):
                    check_step(F, a, b, c, reg_ab, ctx)
                n += 256
        ctx.enumerated(n, n)
        ctx.count("step_pairs_executed", n)
        ctx.sample({"kind": "step", "a": shard["first_octets"][0], "b": 0x7E, "c": 0x7D})
    elif kind == "residue":
        table = getattr(F, "fast_frame_check_crc_table", None)
        if table is not None:
            for i in range(256):
                ctx.count("table_entries_compared")
                if table[i] != fcs16.step(0, i):
                    ctx.violation("C03:table-entry", f"table[{i}]={table[i]:#06x}, bit-serial {fcs16.step(0, i):#06x}", {"kind": "table", "i": i})
        checksums = set()
        n_good = 0
        for a in shard["first_octets"]:
            for b in range(256):
                obj = F()
                obj.update(a)
                obj.update(b)
                chk = obj.checksum
                checksums.add(chk)
                msg = bytes((a, b))
                if chk != fcs16.fcs(msg):
                    ctx.violation("C03:checksum", f"checksum after {msg.hex()} = {chk!r}, model {fcs16.fcs(msg):#06x}", {"kind": "residue", "a": a, "b": b})
                want = fcs16.ends_with_good_fcs(msg)
                good = bool(obj.is_good)
                n_good += good
                if good != want:
                    ctx.violation("C03:is_good", f"register state reached by {msg.hex()}: is_good={good}, model {want}", {"kind": "residue", "a": a, "b": b})
        n = 256 * len(shard["first_octets"])
        ctx.enumerated(n, n)
        ctx.count("residue_states_checked", n)
        ctx.count("distinct_register_states_reached", len(checksums))
        ctx.count("states_reported_good", n_good)
        ctx.sample({"kind": "residue", "a": 0, "b": 0, "is_good_expected": True})
    else:
        rng = ctx.rng("random", shard["part"])
        if shard["part"] == 0:
            # windows whose length is a power of two, a multiple of 1 MiB / 64 KiB, or next to one (block-wise implementations)
            big = rng.randbytes((1 << 21) + 5)
            for length in (65536, 65535, 65537, 1 << 20, (1 << 20) - 1, (1 << 20) + 1, 1 << 21, 4096, 8192):
                start = rng.choice((0, 1, 3))
                got = F.compute_checksum(big, start, length)
                want = fcs16.fcs_fast(big[start : start + length])
                ctx.count("big_windows_compared")
                ctx.case(f"big{length}", True)
                if got != want:
                    ctx.violation("C03:compute_checksum:big-window", f"compute_checksum(window of {length} octets at {start}) = {got!r}, model {want:#06x}", {"kind": "big", "length": length, "start": start})
        for i in range(shard["n"]):
            n = rng.choice((0, 1, 2, 3, rng.randint(0, 40), rng.randint(0, 300)))
            data = rng.randbytes(n)
            case = {"kind": "random", "data": data}
            run_random_case(F, data, rng, ctx, case)
            if i < 2:
                ctx.sample(case)


_rx = None
_rx_view = None


def run_random_case(F, data: bytes, rng, ctx, case) -> None:
    ctx.case(b"r" + data)
    obj = F()
    reg = 0xFFFF
    for i, b in enumerate(data):
        got = obj.update(b)
        reg = fcs16.step(reg, b)
        if got != reg:
            ctx.violation("C03:update-return", f"octet {i} of {data.hex()[:80]}: update() -> {got!r}, model {reg:#06x}", case)
            return
    if obj.checksum != reg ^ 0xFFFF:
        ctx.violation("C03:checksum", f"checksum of {data.hex()[:80]} = {obj.checksum!r}, model {reg ^ 0xFFFF:#06x}", case)
    # interleaved reads: is_good and checksum queried after every octet of message + trailer (also before the first one)
    msg_t = data + fcs16.trailer(data)
    o2 = F()
    reg2 = 0xFFFF
    for i in range(len(msg_t) + 1):
        g, c = o2.is_good, o2.checksum
        want_g = reg2 == fcs16.register(b"\x00\x00")
        if bool(g) != want_g or c != reg2 ^ 0xFFFF:
            ctx.violation("C03:interleaved-reads", f"after {i} octets of {msg_t.hex()[:60]} (queried after every octet): is_good={g!r} (model {want_g}), checksum={c!r} (model {reg2 ^ 0xFFFF:#06x})", case)
            break
        if i < len(msg_t):
            o2.update(msg_t[i])
            reg2 = fcs16.step(reg2, msg_t[i])
    ctx.count("interleaved_read_sequences")
    # windows
    for _ in range(3):
        start = rng.randint(0, len(data))
        length = rng.randint(0, len(data) - start)
        got = F.compute_checksum(data, start, length)
        want = fcs16.fcs(data[start : start + length])
        ctx.count("windows_compared")
        if got != want:
            ctx.violation("C03:compute_checksum", f"compute_checksum(len {len(data)}, {start}, {length}) = {got!r}, model {want:#06x}", dict(case, start=start, length=length))
    # call sequences: compute_checksum is a function of (data, start, length) whatever was computed - or failed - before
    if len(data) >= 2:
        start = rng.randint(0, len(data) - 1)
        full_len = len(data) - start
        seq = [(start, full_len), (start, rng.randint(0, full_len - 1) if full_len > 0 else 0), (start, full_len), (start, 0),
               (rng.randint(0, len(data)), None)]
        # a call that fails part-way (window past the end, or a non-octet element), then valid calls again
        try:
            F.compute_checksum(data, start, full_len + rng.randint(1, 5))
        except Exception:
            ctx.count("compute_checksum_calls_that_raised")
        for st, ln in seq:
            if ln is None:
                ln = rng.randint(0, len(data) - st)
            got = F.compute_checksum(data, st, ln)
            want = fcs16.fcs(data[st : st + ln])
            ctx.count("windows_compared_in_sequences")
            if got != want:
                ctx.violation("C03:compute_checksum:depends-on-earlier-calls", f"compute_checksum(len {len(data)}, {st}, {ln}) = {got!r} after other calls on the same data, model {want:#06x}", dict(case, start=st, length=ln))
                break
        try:
            F.compute_checksum(list(data[:3]) + ["x"], 0, 4)
        except Exception:
            ctx.count("compute_checksum_calls_that_raised")
        got = F.compute_checksum(data, 0, len(data))
        if got != fcs16.fcs(data):
            ctx.violation("C03:compute_checksum:depends-on-earlier-calls", f"compute_checksum of the whole string after a failed call = {got!r}, model {fcs16.fcs(data):#06x}", case)
    # the same octets in every container a caller may hold them in (a zero-copy slice of a receive buffer, ...)
    if data:
        import array

        start = rng.randint(0, len(data) - 1)
        length = rng.randint(0, len(data) - start)
        want = fcs16.fcs(data[start : start + length])
        pad_l, pad_r = rng.randint(1, 9), rng.randint(0, 4)
        backing = bytearray(rng.randbytes(pad_l) + data + rng.randbytes(pad_r))
        for kind, container in (("bytearray", bytearray(data)), ("memoryview", memoryview(data)), ("memoryview_slice_at_offset", memoryview(backing)[pad_l : pad_l + len(data)]),
                                ("array_B", array.array("B", data)), ("tuple", tuple(data))):
            try:
                got = F.compute_checksum(container, start, length)
            except Exception:
                ctx.count("container_calls_that_raised(not judged)")
                continue
            ctx.count("windows_compared_in_other_containers")
            if got != want:
                ctx.violation(f"C03:compute_checksum:container:{kind}", f"compute_checksum({kind} of {len(data)} octets, {start}, {length}) = {got!r}, model {want:#06x} (bytes give {F.compute_checksum(data, start, length)!r})", dict(case, start=start, length=length, container=kind))
    # one long-lived read-only view over a receive buffer that is refilled between the calls (the same view object, other octets)
    if data:
        global _rx, _rx_view
        if _rx is None:
            _rx = bytearray(512)
            _rx_view = memoryview(_rx).toreadonly()
        n = min(len(data), len(_rx))
        _rx[:n] = data[:n]
        for st, ln in ((0, n), (0, n), (min(1, n), max(0, n - 1))):
            try:
                got = F.compute_checksum(_rx_view, st, ln)
            except Exception:
                ctx.count("container_calls_that_raised(not judged)")
                break
            ctx.count("windows_compared_in_a_reused_read_only_view")
            if got != fcs16.fcs(data[st : st + ln]):
                ctx.violation("C03:compute_checksum:container:reused_read_only_view", f"compute_checksum(read-only view over a refilled buffer, {st}, {ln}) = {got!r}, model {fcs16.fcs(data[st:st + ln]):#06x}", dict(case, start=st, length=ln, container="reused_read_only_view"))
                break
    # an object that is duplicated half-way (copy, deepcopy, pickle round trip) and continued: the duplicate carries the same register
    if len(data) >= 2:
        import copy
        import pickle

        cut = rng.randrange(1, len(data))
        o = F()
        for b in data[:cut]:
            o.update(b)
        for how, dup_fn in (("copy", copy.copy), ("deepcopy", copy.deepcopy), ("pickle", lambda x: pickle.loads(pickle.dumps(x)))):
            try:
                dup = dup_fn(o)
            except Exception:
                ctx.count("duplication_not_supported(not judged)")
                continue
            ctx.count("objects_duplicated_mid_stream")
            ok = dup.checksum == fcs16.fcs(data[:cut])
            for b in data[cut:]:
                dup.update(b)
            if not ok or dup.checksum != fcs16.fcs(data) or bool(dup.is_good) != fcs16.ends_with_good_fcs(data):
                ctx.violation(f"C03:duplicated-object:{how}", f"object duplicated with {how} after {cut} of {len(data)} octets of {data.hex()[:60]}: checksum {dup.checksum!r}, model {fcs16.fcs(data):#06x}", dict(case, cut=cut, how=how))
        for b in data[cut:]:
            o.update(b)
        if o.checksum != fcs16.fcs(data):
            ctx.violation("C03:duplicated-object:original-changed", f"the original object gives {o.checksum!r} after it was duplicated, model {fcs16.fcs(data):#06x}", dict(case, cut=cut))
    # compute_checksum reached through an object that has already consumed octets (legal for a static method), and an object that is
    # re-initialised with __init__() for the next message (object pools do that)
    if data:
        used = F()
        for b in data[: max(1, len(data) // 2)]:
            used.update(b)
        before = used.checksum
        try:
            got = used.compute_checksum(data, 0, len(data))
        except Exception:
            got = None
            ctx.count("container_calls_that_raised(not judged)")
        if got is not None:
            ctx.count("compute_checksum_called_through_a_used_object")
            if got != fcs16.fcs(data) or used.checksum != before:
                ctx.violation("C03:compute_checksum:through-used-object", f"compute_checksum called through an object that had consumed {max(1, len(data) // 2)} octets: {got!r} (model {fcs16.fcs(data):#06x}); the object's own checksum {before!r} -> {used.checksum!r}", case)
        try:
            used.__init__()
            for b in data:
                used.update(b)
            ctx.count("objects_reinitialised_and_reused")
            if used.checksum != fcs16.fcs(data):
                ctx.violation("C03:reinitialised-object", f"object re-initialised with __init__() and fed {data.hex()[:60]}: checksum {used.checksum!r}, model {fcs16.fcs(data):#06x}", case)
        except TypeError:
            ctx.count("container_calls_that_raised(not judged)")
    # pairs of different windows that a 32-bit digest of the input cannot tell apart, computed one after the other
    if len(data) >= 3:
        from vf.gen import collide

        for kind, other in collide.twins(data, rng):
            first = F.compute_checksum(data, 0, len(data))
            second = F.compute_checksum(other, 0, len(other))
            again = F.compute_checksum(data, 0, len(data))
            ctx.count(f"digest_colliding_pairs_{kind}")
            if first != fcs16.fcs(data) or second != fcs16.fcs(other) or again != first:
                ctx.violation(f"C03:compute_checksum:digest-colliding-pair:{kind}", f"{data.hex()[:60]} then {other.hex()[:60]} (same length and {kind}): {first!r}, {second!r}, {again!r}; model {fcs16.fcs(data):#06x}, {fcs16.fcs(other):#06x}", dict(case, other=other))
    # trailers: correct, one bit flipped, octets swapped
    good_tr = fcs16.trailer(data)
    variants = [("correct", good_tr)]
    bit = rng.randrange(16)
    flipped = bytes((good_tr[0] ^ ((1 << bit) & 0xFF), good_tr[1] ^ ((1 << bit) >> 8)))
    variants.append(("bitflip", flipped))
    variants.append(("swapped", bytes((good_tr[1], good_tr[0]))))
    if data:
        d2 = bytearray(data)
        d2[rng.randrange(len(d2))] ^= 1 << rng.randrange(8)
        variants.append(("databit", None))
    for name, tr in variants:
        if name == "databit":
            msg = bytes(d2) + good_tr
        else:
            msg = data + tr
        o = F()
        for b in msg:
            o.update(b)
        want = fcs16.ends_with_good_fcs(msg)
        ctx.count(f"trailer_{name}")
        if bool(o.is_good) != want:
            ctx.violation("C03:is_good", f"message {msg.hex()[:80]} ({name} trailer): is_good={o.is_good!r}, model {want}", dict(case, variant=name, msg=msg))
        if want:
            ctx.count("messages_reported_good")


def replay(case: dict, ctx) -> None:
    F = _cls()
    k = case.get("kind")
    if k == "step":
        a, b, c = case["a"], case["b"], case["c"]
        check_step(F, a, b, c, fcs16.step(fcs16.step(0xFFFF, a), b), ctx)
    elif k == "residue":
        run({"kind": "residue", "first_octets": [case["a"]]}, ctx)
    elif k == "table":
        run({"kind": "residue", "first_octets": []}, ctx)
    elif k == "big":
        import random

        big = random.Random(1).randbytes((1 << 21) + 5)
        got = F.compute_checksum(big, case["start"], case["length"])
        if got != fcs16.fcs_fast(big[case["start"] : case["start"] + case["length"]]):
            ctx.violation("C03:compute_checksum:big-window", f"window of {case['length']} octets", case)
    else:
        import random

        run_random_case(F, case["data"], random.Random(0), ctx, case)
        if "other" in case:
            a, b = case["data"], case["other"]
            got = (F.compute_checksum(a, 0, len(a)), F.compute_checksum(b, 0, len(b)))
            if got != (fcs16.fcs(a), fcs16.fcs(b)):
                ctx.violation("C03:compute_checksum:digest-colliding-pair:replay", f"{got!r} vs model {(fcs16.fcs(a), fcs16.fcs(b))!r}", case)
        if "msg" in case:
            o = F()
            for b in case["msg"]:
                o.update(b)
            if bool(o.is_good) != fcs16.ends_with_good_fcs(case["msg"]):
                ctx.violation("C03:is_good", f"message {case['msg'].hex()[:80]}: is_good={o.is_good!r}", case)


def finalize(agg: dict, tier: str):
    c = agg["counters"]
    reasons = []
    extra = {}
    if c.get("distinct_register_states_reached", 0) != 65536:
        reasons.append(f"residue sweep reached {c.get('distinct_register_states_reached', 0)} distinct register states, expected 65536")
    if c.get("states_reported_good", 0) != 1 and not agg["violations"]:
        reasons.append("residue sweep: number of good states is not 1 but no violation recorded")
    if c.get("messages_reported_good", 0) == 0:
        reasons.append("no message with a correct trailer was observed as good")
    steps = c.get("step_pairs_executed", 0)
    extra["step_function_pairs_executed"] = steps
    extra["exhaustive"] = bool(tier == "thorough" and steps == 1 << 24)
    extra["exhaustive_scope"] = (
        "step function update()/compute_checksum over all 2^16 states x 2^8 octets, and the is_good residue over all 2^16 states"
        if extra["exhaustive"] else "residue over all 2^16 states only; step function sampled (4 of 256 first octets x all 2^16 (b,c))"
    )
    return extra, reasons
