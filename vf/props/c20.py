"""C20 - OBIS codes parse into their value groups and format back losslessly.

Monitor: recorder on to_obis_tupple / Obis.from_string / to_reduced_str / str /
== / hash / to_group_cdr_str, driven by a grammar-based generator (all 16
presence patterns x boundary and random group values, both syntaxes) and a
mutation grammar for strings without digit.digit; oracle = the groups the
generator wrote.
"""
from __future__ import annotations

import itertools
import re

from vf.ref import obis_ref

ID = "C20"
LEVEL = "exploration"
RULE = (
    "well-formed: every presence pattern of the optional groups A,B,E,F (16) x group values from {0,1,9,10,99,100,255,random 0..255} in reduced form "
    "[A-][B:]C.D[.E][*F], and the six-part dotted form with and without F; checks: parsed tuple == groups, from_string, ==/hash against an independently built equal "
    "object, a different object, and the string form, C.D.E string, and the round trip parse(to_reduced_str()) when optional groups are absent or non-zero. "
    "malformed: strings from a mutation grammar over digits, '- : . *', letters and blanks that contain no digit.digit -> ValueError and nothing else. "
    "evaluations = strings/objects exercised; distinct non-trivial = distinct code strings; round trips with both A and B present are counted separately."
)
ASSUMPTIONS = ["syntax as in the statement (vf/ref/obis_ref.py)"]
WATCHDOG_S = {"quick": 600, "thorough": 3600}
N = {"quick": 1300, "thorough": 62000}
BOUNDARY = (0, 1, 2, 3, 4, 9, 10, 24, 96, 97, 98, 99, 100, 128, 199, 254, 255)  # incl. values with a meaning of their own (M-Bus, electricity, abstract, manufacturer specific)


def plan(tier, seed):
    return [{"kind": "suite"}] + [{"n": N[tier]} for _ in range(16)] + [{"kind": "threads", "k": k} for k in range(3 if tier == "quick" else 16)] + [{"n": N[tier] // 4, "python_flags": ["-bb"]}]


def digest_twin_strings(ctx) -> None:
    """Two different OBIS strings with the same CRC-32 (birthday search), parsed one after the other: each gives its own groups."""
    from han import obis

    from vf.gen import collide

    rng = ctx.rng(ID, "digest-twins")
    for syntax in ("reduced", "dotted"):
        table = {}

        def make(i):
            r = rng.getrandbits(48)
            g = tuple((r >> (8 * k)) & 0xFF for k in range(6))
            text = obis_ref.reduced(g) if syntax == "reduced" else obis_ref.dotted(g[:5]) + "." + str(g[5])
            table[i] = (g, text)
            return text.encode()

        pair = collide.birthday(make, limit=400_000)
        if pair is None:
            ctx.count("digest_twin_not_available")
            continue
        ctx.count("digest_colliding_string_pairs")
        for i in (pair[0], pair[1], pair[0]):
            g, text = table[i]
            check_wellformed(g, text, ctx, syntax)
            o = obis.Obis.from_string(text)
            if tuple(o.as_tupple()) != g or not (o == text) or (o == table[pair[1] if i == pair[0] else pair[0]][1]):
                ctx.violation(f"C20:{syntax}:digest-colliding-strings", f"{text!r} parsed right after {table[pair[0]][1]!r} / {table[pair[1]][1]!r} (same CRC-32): groups {o.as_tupple()!r}, written {g!r}", {"text": text, "groups": list(g), "syntax": syntax})
        ctx.case("twins" + syntax, True, 3)


def run_threads(shard, ctx) -> None:
    """Parsing is a function of the string: several threads parsing different codes at once (first parses of a fresh interpreter)
    each get the groups of their own string."""
    import sys
    import threading

    from han import obis

    rng = ctx.rng(ID, "threads", shard["k"])
    n_threads, per = 4, 400
    work = []
    for t in range(n_threads):
        items = []
        for i in range(per):
            groups = (gval(rng) if rng.random() < 0.5 else None, gval(rng) if rng.random() < 0.5 else None, gval(rng), gval(rng), gval(rng) if rng.random() < 0.7 else None, gval(rng) if rng.random() < 0.4 else None)
            items.append((groups, obis_ref.reduced(groups)))
        work.append(items)
    bad: list = []
    barrier = threading.Barrier(n_threads)

    def worker(items, mode):
        barrier.wait()
        for groups, text in items:
            try:
                if mode == 0:
                    got = tuple(obis.to_obis_tupple(text))
                elif mode == 1:
                    got = tuple(obis.Obis.from_string(text).as_tupple())
                else:
                    got = groups if obis.Obis(groups) == text else ("== with the string form is False",)
            except Exception as ex:
                got = (repr(ex)[:80],)
            if got != groups:
                bad.append((text, groups, got))

    old = sys.getswitchinterval()
    sys.setswitchinterval(1e-6)
    try:
        ts = [threading.Thread(target=worker, args=(w, i % 3)) for i, w in enumerate(work)]
        for t in ts:
            t.start()
        for t in ts:
            t.join()
    finally:
        sys.setswitchinterval(old)
    ctx.count("parses_in_concurrent_threads", n_threads * per)
    ctx.case(f"threads{shard['k']}", True, n_threads * per)
    for text, groups, got in bad[:3]:
        ctx.violation("C20:differs-under-concurrent-threads", f"{text!r} parsed in {n_threads} threads at once: {got!r}, written groups {groups!r} (the same string parses correctly in one thread)", {"text": text, "groups": list(groups), "syntax": "reduced"})


def gval(rng):
    return rng.choice(BOUNDARY) if rng.random() < 0.6 else rng.randrange(256)


def check_wellformed(groups, text, ctx, syntax) -> None:
    from han import obis

    case = {"text": text, "groups": list(groups), "syntax": syntax}
    try:
        tup = obis.to_obis_tupple(text)
        o = obis.Obis.from_string(text)
    except Exception as ex:
        ctx.violation(f"C20:{syntax}:parse-raised:{type(ex).__name__}", f"{text!r} raised {ex!r}", case)
        return
    if tuple(tup) != tuple(groups):
        ctx.violation(f"C20:{syntax}:parse-groups", f"to_obis_tupple({text!r}) = {tup!r}, written groups {groups!r}", case)
        return
    if tuple(o.as_tupple()) != tuple(groups) or (o.a, o.b, o.c, o.d, o.e, o.f) != tuple(groups):
        ctx.violation(f"C20:{syntax}:from_string-groups", f"Obis.from_string({text!r}) groups {o.as_tupple()!r} != {groups!r}", case)
    twin = obis.Obis(tuple(groups))
    if not (o == twin) or hash(o) != hash(twin):
        ctx.violation("C20:equality:equal-groups-not-equal", f"{text!r}: == {o == twin}, hash equal {hash(o) == hash(twin)}", case)
    other = list(groups)
    other[2] = (groups[2] + 1) % 256
    if o == obis.Obis(tuple(other)):
        ctx.violation("C20:equality:different-groups-equal", f"{text!r} == object with C={other[2]}", case)
    for i in (0, 1, 4, 5):  # presence matters: None vs 0
        alt = list(groups)
        alt[i] = 0 if groups[i] is None else None
        if o == obis.Obis(tuple(alt)):
            ctx.violation("C20:equality:different-groups-equal", f"{text!r} == object with group {i} = {alt[i]!r}", case)
    # coupled differences: an optional group absent vs 0 together with a neighbouring group one higher / lower
    for i in (1, 4, 5):
        j = i - 1 if i != 4 else 3
        for delta in (1, -1):
            alt = list(groups)
            alt[i] = 0 if groups[i] is None else None
            if alt[j] is None:
                continue
            alt[j] = alt[j] + delta
            if 0 <= alt[j] <= 255 and tuple(alt) != tuple(groups):
                o_alt = obis.Obis(tuple(alt))
                if o == o_alt or (hash(o) == hash(o_alt) and False):
                    ctx.violation("C20:equality:different-groups-equal", f"{text!r} == Obis({tuple(alt)!r}) (two neighbouring groups differ)", case)
                try:
                    if o == obis_ref.reduced(tuple(alt)):
                        ctx.violation("C20:equality:different-groups-equal", f"{text!r} == {obis_ref.reduced(tuple(alt))!r} (two neighbouring groups differ)", case)
                except Exception as ex:
                    ctx.violation(f"C20:equality:raised:{type(ex).__name__}", f"{text!r} == string raised {ex!r}", case)
    # comparison with strings is stateless: valid string, malformed string, the same malformed string again (and != as well)
    for bad in ("no obis here", "1-0:", ""):
        r1 = o == text
        r2 = o == bad
        r3 = twin == bad
        r4 = o != bad
        if not r1 or r2 or r3 or not r4:
            ctx.violation("C20:equality:string-comparison-depends-on-history", f"{text!r}: == itself {r1}, == {bad!r} {r2}, equal object == {bad!r} again {r3}, != {bad!r} {r4}", case)
            break
    if not (o == text):
        ctx.violation("C20:equality:string-not-parsed", f"Obis.from_string({text!r}) != {text!r}", case)
    if o == "no obis here":
        ctx.violation("C20:equality:garbage-string-equal", f"{text!r} == 'no obis here'", case)
    # derived objects: equal groups <=> equal and equal hash, also when the source object was hashed before
    flt = getattr(o, "filter_group_cde", None)
    if flt is not None:
        hash(o)
        f_obj = flt()
        f_want = obis.Obis((None, None, groups[2], groups[3], groups[4], None))
        if not (f_obj == f_want) or hash(f_obj) != hash(f_want) or f_obj not in {f_want}:
            ctx.violation("C20:equality:derived-object-hash", f"{text!r}: filter_group_cde() == fresh object: {f_obj == f_want}, hashes equal: {hash(f_obj) == hash(f_want)}", case)
    cde = o.to_group_cdr_str()
    if cde != f"{groups[2]}.{groups[3]}.{groups[4]}":
        ctx.violation("C20:cde-string", f"{text!r}: C.D.E string {cde!r}", case)
    # round trip when the optional groups are absent or non-zero
    if all(groups[i] is None or groups[i] != 0 for i in (0, 1, 4, 5)):
        try:
            red = o.to_reduced_str()
            back = obis.to_obis_tupple(red)
        except Exception as ex:
            ctx.violation(f"C20:roundtrip:raised:{type(ex).__name__}", f"{text!r}: to_reduced_str/parse raised {ex!r}", case)
            return
        ctx.count("roundtrips")
        if groups[0] is not None and groups[1] is not None:
            ctx.count("roundtrips_with_A_and_B")
        if tuple(back) != tuple(groups):
            both = "A-and-B-present" if groups[0] is not None and groups[1] is not None else "other"
            ctx.violation(f"C20:roundtrip:{both}", f"groups {groups!r} format to {red!r}, which parses to {back!r}", case)
        try:
            s = str(o)
            back2 = obis.to_obis_tupple(s)
            if tuple(x or None for x in back2) != tuple(x or None for x in groups) and all(groups):
                ctx.violation("C20:str-roundtrip", f"str() = {s!r} parses to {back2!r}, groups {groups!r}", case)
        except Exception as ex:
            ctx.violation(f"C20:str:raised:{type(ex).__name__}", f"{text!r}: str() raised {ex!r}", case)


PIECES = ["-", ":", ".", "*", " ", "\t", "a", "Z", "kW", "(", ")", "/", "!", ""]


def malformed(rng) -> str:
    while True:
        n = rng.randint(0, 10)
        parts = []
        for _ in range(n):
            r = rng.random()
            if r < 0.45:
                parts.append(str(rng.choice((0, 1, 9, 10, 255, 256, 1000, rng.randrange(10**6)))))
            else:
                parts.append(rng.choice(PIECES))
        s = "".join(parts)
        if obis_ref.must_raise(s):
            return s


def check_malformed(text, ctx) -> None:
    from han import obis

    case = {"text": text, "malformed": True}
    for name, fn in (("to_obis_tupple", obis.to_obis_tupple), ("from_string", obis.Obis.from_string)):
        try:
            r = fn(text)
        except ValueError:
            ctx.count("malformed_rejected")
            continue
        except Exception as ex:
            ctx.violation(f"C20:malformed:wrong-exception:{type(ex).__name__}", f"{name}({text!r}) raised {ex!r} instead of ValueError", case)
            continue
        ctx.violation("C20:malformed:accepted", f"{name}({text!r}) returned {r!r} although the string has no digit.digit", case)


def deep_stack_probe(ctx) -> None:
    """Comparison with a string at every remaining stack depth from 1 to 120 frames: the answer is the right one or a RecursionError."""
    import sys

    from han import obis

    o = obis.Obis.from_string("1-0:1.8.0*255")
    texts = ("1-0:1.8.0*255", "1.0.1.8.0.255", "1-0:1.8.1*255", "no obis")
    answers = (True, True, False, False)

    def at_depth(n, fn):
        if n <= 0:
            return fn()
        return at_depth(n - 1, fn)

    limit = sys.getrecursionlimit()
    import inspect

    base = len(inspect.stack(0))
    for headroom in range(1, 121):
        for text, want in zip(texts, answers):
            try:
                got = at_depth(limit - base - headroom - 3, lambda: o == text)
            except RecursionError:
                ctx.count("deep_stack_recursion_errors")
                continue
            ctx.count("deep_stack_answers")
            if got is not want:
                ctx.violation("C20:equality:wrong-answer-near-recursion-limit", f"Obis('1-0:1.8.0*255') == {text!r} answered {got!r} with about {headroom} frames of stack left (right answer {want}, or RecursionError)", {"text": text, "groups": [1, 0, 1, 8, 0, 255], "syntax": "deep"})
                return


def run(shard, ctx):
    if shard.get("kind") == "suite":
        deep_stack_probe(ctx)
        from vf.mon import suite

        suite.run_suite(ctx, "C20")
        return
    if shard.get("kind") == "threads":
        if shard.get("k") == 0:
            digest_twin_strings(ctx)
        return run_threads(shard, ctx)
    rng = ctx.rng(ID)
    patterns = list(itertools.product((False, True), repeat=4))
    for i in range(shard["n"]):
        if i % 40 == 7 and not shard.get("python_flags"):
            # the rest of the library is used in the same process: P1 telegrams that decode, and ones that fail half-way
            from han import dlde

            for text in (b"1-0:1.8.0(000123.456*kWh)\r\n0-0:96.1.1(4B384547303034303436333935353037)\r\n", b"1-0:32.7.0(2x1.4*V)\r\n", b"C.1.0(12345678)\r\nF.F(00)\r\n",
                         b"0-0:1.0.0(99999999999W)\r\n", b"not-an-address(1)\r\n1-0:1.7.0(1e999*kW)\r\n"):
                try:
                    dlde.decode_p1_readout_content(text)
                except Exception:
                    pass
            ctx.count("p1_decodes_in_between(process_history)", 5)
        if i % 40 == 8:
            # letter forms of value groups that other notations know (C = 96, F = 97, L = 98, P = 99): no digit-dot-digit, so not a code
            for text in ("F.F", "C.1", "C-F:L.P", "L.1", "P.1", "1.F", "F.1*F", "C.F", "1-0:C.1", "c.1", "0xC.1", "1.e5", "1.-1", "٣.٤", "１.２", "1,8,0", "1 . 8 . 0"):
                if obis_ref.must_raise(text):
                    check_malformed(text, ctx)
        pa, pb, pe, pf = patterns[i % 16]
        groups = (gval(rng) if pa else None, gval(rng) if pb else None, gval(rng), gval(rng), gval(rng) if pe else None, gval(rng) if pf else None)
        text = obis_ref.reduced(groups)
        check_wellformed(groups, text, ctx, "reduced")
        ctx.case("r" + text)
        if i % 3 == 0:
            # the same code with leading zeros in some groups ('1-0:1.08.0'): the digits of a group are a number
            # (at most three digits per group, which is as wide as a group 0..255 is ever written)
            padded = re.sub(r"\d+", lambda m: ("0" * rng.choice((0, 0, 1, 2)) + m.group(0))[-max(3, len(m.group(0))):] if len(m.group(0)) < 3 else m.group(0), text)
            if padded != text:
                check_wellformed(groups, padded, ctx, "reduced")
                ctx.count("codes_written_with_leading_zeros")
        ctx.count(f"presence_{int(pa)}{int(pb)}{int(pe)}{int(pf)}")
        g6 = (gval(rng), gval(rng), gval(rng), gval(rng), gval(rng), gval(rng) if rng.random() < 0.8 else None)
        t6 = obis_ref.dotted(g6[:5]) + ("." + str(g6[5]) if g6[5] is not None else ".")
        check_wellformed(g6, t6, ctx, "dotted")
        ctx.case("d" + t6)
        bad = malformed(rng)
        check_malformed(bad, ctx)
        ctx.case("m" + bad)
        if i < 2:
            ctx.sample({"reduced": text, "groups": list(groups), "dotted": t6, "malformed": bad})


def replay(case, ctx):
    if case.get("malformed"):
        check_malformed(case["text"], ctx)
    else:
        check_wellformed(tuple(case["groups"]), case["text"], ctx, case["syntax"])


def finalize(agg, tier):
    c = agg["counters"]
    reasons = [f"presence pattern {p} never generated" for p in ("".join(map(str, map(int, t))) for t in itertools.product((0, 1), repeat=4)) if c.get(f"presence_{p}", 0) == 0]
    for k in ("roundtrips_with_A_and_B", "malformed_rejected"):
        if c.get(k, 0) == 0:
            reasons.append(f"workload never produced '{k}'")
    return {}, reasons
