"""C04 - P1: a readout is reported valid only if its CRC16 and identification check out.

Monitor: boundary recorder on DataReadout (from ModeDReader.read() under
splittings, and built directly from bytes) + reference model (bit-serial
CRC-16/ARC, liberal ident recogniser for soundness, strict generator for
completeness).
"""
from __future__ import annotations

from vf.gen import p1_gen, splits
from vf.mon import p1_mon
from vf.ref import crc16, p1_ref

ID = "C04"
LEVEL = "exploration"
RULE = (
    "base = strict readout (standard ident line, 0..60 data lines, CRLF/LF, correct checksum). variants per base: unchanged; checksum text replaced by "
    "{correct in lower/mixed case, 0000, 0001, FFFF, correct+-1, random 4 hex}; checksum removed; single-bit flips (every bit of small readouts, random bits "
    "of larger ones); good + damaged pairs and noise + good readouts through one reader; plus readouts searched to have a true CRC of 0x0000. Each variant is checked as DataReadout(bytes) and as returned by "
    "ModeDReader.read() under several splittings. evaluations = validity verdicts observed; distinct non-trivial = distinct variant byte strings "
    "that carry a checksum field (4 hex digits after '!')."
)
ASSUMPTIONS = [
    "CRC model vf/ref/crc16.py (CRC-16/ARC('123456789') = 0xBB3D checked in setup)",
    "soundness uses a liberal ident recogniser (/ + 3 letters + digit + printable), completeness a strict generator, so the oracle never demands more than the statement",
    "with several '!' in a readout the oracle accepts validity if ANY of them, taken as end character, has no bad checksum after it",
    "an exception from is_valid counts as 'not reported valid' here and is decided by C14",
]
WATCHDOG_S = {"quick": 900, "thorough": 7200}
N_BASE = {"quick": 90, "thorough": 5000}


def plan(tier: str, seed: int) -> list[dict]:
    shards = [{"kind": "gen", "n": N_BASE[tier]} for _ in range(15)]
    shards.append({"kind": "zero_crc", "n": 6 if tier == "quick" else 120})
    shards.append({"kind": "suite"})
    return shards


def judge(r: bytes, obs: dict, ctx, case: dict, expect_valid: bool | None, via: str) -> None:
    """Apply the oracles to one observed readout with bytes r."""
    ctx.case(None, False)
    valid = obs["valid"]
    if obs["exceptions"]:
        for k, ex in obs["exceptions"].items():
            ctx.count(f"accessor_raised_{k}")
            ctx.seen("exceptions(decided by C14)", p1_mon.where(ex))
    verdicts = p1_ref.checksum_verdicts(r)
    if "ok" in verdicts or "bad" in verdicts:
        ctx.case(b"v" + r, True, 0)
    if valid is True:
        ctx.count("reported_valid")
        first = r[: r.find(b"\n") + 1] if b"\n" in r else r
        if not p1_ref.is_liberal_ident(first):
            ctx.violation("C04:valid-without-ident-line", f"{via}: readout starting {first[:40]!r} reported valid", case)
        if verdicts and all(v == "bad" for v in verdicts):
            e = r.find(b"!")
            tail = r[e + 1 :].strip()
            zero = "transmitted-0000" if len(verdicts) == 1 and int(tail, 16) == 0 else "nonzero"
            ctx.violation(
                f"C04:valid-with-wrong-checksum:{zero}",
                f"{via}: checksum text {tail!r}, CRC16('/'..'!') = {crc16.crc16(r[: e + 1]):04X}, reported valid",
                case,
            )
        if r.count(b"!") == 1 and b"\n" in r[: r.find(b"!")]:
            _f, want_payload, _t = p1_ref.split_readout(r)
            if obs["payload"] != want_payload:
                ctx.violation("C04:payload", f"{via}: payload {obs['payload']!r:.80} != bytes between ident line and '!' {want_payload!r:.80}", case)
            else:
                ctx.count("payload_compared")
    else:
        ctx.count("not_reported_valid")
    if expect_valid is True and valid is not True:
        why = "raised " + ",".join(type(e).__name__ for e in obs["exceptions"].values()) if obs["exceptions"] else f"is_valid={valid!r}"
        ctx.violation("C04:good-readout-invalid", f"{via}: well-formed, correctly check-summed readout not reported valid ({why})", case)


def check_variant(r: bytes, expect_valid: bool | None, ctx, rng, label: str) -> None:
    from han.dlde import DataReadout

    ctx.count(f"variant_{label}")
    case = {"readout": r, "label": label, "expect_valid": expect_valid}
    d, ex = p1_mon.safe(lambda: DataReadout(r))
    if ex is None:
        judge(d.as_bytes, p1_mon.observe(d), ctx, dict(case, via="direct"), expect_valid, "DataReadout(bytes)")
    else:
        ctx.count("constructor_raised")
        if expect_valid:
            ctx.violation("C04:good-readout-rejected-by-constructor", f"DataReadout(bytes) raised {ex!r}", case)
    specs = [("none",), splits.random_spec(rng, len(r))]
    if len(r) < 200:
        specs.append(("bytewise",))
    for spec in specs:
        obs, exc, _ = p1_mon.run(splits.chunks(r, spec))
        if exc is not None:
            ctx.count("read_raised")
            ctx.seen("exceptions(decided by C14)", p1_mon.where(exc))
        if expect_valid and not exc and len(obs) != 1:
            ctx.violation("C04:good-readout-not-returned", f"reader returned {len(obs)} readouts for one well-formed readout (split {spec[0]})", dict(case, split=list(spec)))
        for o in obs:
            if o.get("changed_later"):
                ctx.violation("C04:readout-changed-after-return", "a returned readout answered differently (bytes/validity/payload) after later read() calls", dict(case, split=list(spec)))
            if o["bytes"] is None:
                continue
            same = o["bytes"] == r
            judge(o["bytes"], o, ctx, dict(case, via="reader", split=list(spec)), expect_valid if same else None, f"reader[{spec[0]}]")


def check_pair(base: bytes, rng, ctx) -> None:
    """A good readout followed by a same-length damaged copy through ONE reader: each verdict must be about its own bytes."""
    b = bytearray(base)
    lf = base.find(b"\n")
    bang = base.rfind(b"!")
    if bang - lf < 4:
        return
    pos = rng.randrange(lf + 1, bang)
    b[pos] = b[pos] ^ 0x01 if b[pos] not in (0x0A, 0x0D, 0x21, 0x20) else 0x30
    damaged = bytes(b)
    if damaged == base or b"!" in damaged[:bang] or damaged.count(b"\n") != base.count(b"\n"):
        return
    for order in ((base, damaged), (damaged, base)):
        stream = order[0] + order[1]
        for spec in (("none",), splits.random_spec(rng, len(stream))):
            obs, exc, _ = p1_mon.run(splits.chunks(stream, spec))
            case = {"readout": stream, "label": "pair_good_damaged", "expect_valid": None, "split": list(spec)}
            ctx.count("pairs_through_one_reader")
            for o, sent in zip(obs, order):
                if o.get("changed_later"):
                    ctx.violation("C04:readout-changed-after-return", "a returned readout answered differently after the next readout was read", case)
                if o["bytes"] is not None:
                    judge(o["bytes"], o, ctx, dict(case, via="reader-pair"), True if (sent == base and o["bytes"] == base) else None, f"reader-pair[{spec[0]}]")
                if o["bytes"] != sent:
                    ctx.violation("C04:readout-bytes-differ-from-sent", "readout returned by the reader is not byte-identical to the one sent", case)


def check_after_noise(base: bytes, rng, ctx) -> None:
    """Noise (incl. over-long lines/readouts that trip the reader's guard), then good readouts through the SAME reader:
    every returned readout is judged on its own bytes; a byte-identical good one must be valid."""
    from vf.props import c16

    noise, kind = c16.p1_noise(rng)
    others = [p1_gen.strict_readout(rng, None, rng.choice((0, 2, 5))) for _ in range(2)]
    sent = [base] + others
    stream = noise + b"".join(sent)
    for spec in (("none",), ("fixed", rng.choice((64, 100, 1000, 4096)), rng.randrange(64)), splits.random_spec(rng, len(stream))):
        obs, exc, _ = p1_mon.run(splits.chunks(stream, spec))
        ctx.count("after_noise_executions")
        case = {"readout": stream, "label": f"after_noise:{kind}", "expect_valid": None, "split": list(spec)}
        for o in obs:
            if o["bytes"] is None:
                continue
            judge(o["bytes"], o, ctx, dict(case, via="reader-after-noise"), True if o["bytes"] in sent else None, f"reader-after-noise[{kind}]")


def variants_of(base: bytes, rng, ctx, exhaustive_flips: bool) -> None:
    good = p1_gen.correct_checksum(base)
    check_pair(base, rng, ctx)
    check_after_noise(base, rng, ctx)
    check_variant(base, True, ctx, rng, "correct")
    hx = "%04X" % good
    if hx.lower() != hx:
        check_variant(p1_gen.with_checksum_text(base, hx.lower().encode()), True, ctx, rng, "correct_lowercase")
        mixed = "".join(c.lower() if i % 2 else c for i, c in enumerate(hx))
        check_variant(p1_gen.with_checksum_text(base, mixed.encode()), True, ctx, rng, "correct_mixedcase")
    check_variant(p1_gen.with_checksum_text(base, b""), True, ctx, rng, "no_checksum")
    for text, label in ((0, "0000"), (1, "0001"), (0xFFFF, "FFFF"), (((good & 0xFF) << 8) | (good >> 8), "byte_swapped"), (good ^ 0xFFFF, "complemented"), ((good + 1) & 0xFFFF, "plus1"), ((good - 1) & 0xFFFF, "minus1"),
                        (good ^ (1 << rng.randrange(16)), "one_bit"), (rng.randrange(65536), "random")):
        exp = True if text == good else False
        check_variant(p1_gen.with_checksum_text(base, b"%04X" % text), exp, ctx, rng, "cs_" + label)
        if label in ("0000", "random"):
            check_variant(p1_gen.with_checksum_text(base, (b"%04x" % text)), exp, ctx, rng, "cs_" + label + "_lower")
    nbits = len(base) * 8
    if exhaustive_flips and nbits <= 1000:
        positions = range(nbits)
        ctx.count("readouts_with_every_bit_flipped")
    else:
        positions = [rng.randrange(nbits) for _ in range(12)]
    for pos in positions:
        b = bytearray(base)
        b[pos // 8] ^= 1 << (pos % 8)
        check_variant(bytes(b), None, ctx, rng, "bitflip")


def find_zero_crc(rng, ctx):
    """A strict readout whose true CRC is 0x0000 (search over a free 5-character value)."""
    ident, _, _ = p1_ref.strict_ident(rng)
    head = ident + b"\r\n\r\n1-0:1.8.0(1.5*kWh)\r\n0-0:96.1.1("
    state = crc16.crc16(head)
    alphabet = b"0123456789ABCDEFGHIJKLMNOPQRSTUVWXYZabcdefghijklmnopqrstuvwxyz"
    for tries in range(1 << 20):
        val = bytes(rng.choice(alphabet) for _ in range(5))
        if crc16.crc16(val + b")\r\n!", state) == 0:
            ctx.count("zero_crc_search_tries", tries + 1)
            return head + val + b")\r\n!0000\r\n"
    return None


def run(shard: dict, ctx) -> None:
    if shard.get("kind") == "suite":
        from vf.mon import suite

        suite.run_suite(ctx, "C04")
        return
    rng = ctx.rng("c04", shard["kind"])
    if shard["kind"] == "zero_crc":
        for _ in range(shard["n"]):
            r = find_zero_crc(rng, ctx)
            if r is None:
                ctx.note_inconclusive("no readout with CRC 0x0000 found in 2^20 tries")
                continue
            ctx.count("readouts_with_true_crc_0000")
            check_variant(r, True, ctx, rng, "true_crc_0000")
            check_variant(p1_gen.with_checksum_text(r, b"0001"), False, ctx, rng, "true_crc_0000_but_0001_sent")
            check_variant(p1_gen.with_checksum_text(r, b""), True, ctx, rng, "true_crc_0000_no_checksum")
            ctx.sample({"readout_with_true_crc_0000": r.decode()})
        return
    for i in range(shard["n"]):
        n_lines = rng.choice((0, 1, 1, 2, 3, 8, 20, 60))
        base = p1_gen.strict_readout(rng, None, n_lines)
        variants_of(base, rng, ctx, exhaustive_flips=(i % 6 == 0 and n_lines <= 1))
        from vf.props import c05 as c05mod

        c05mod.twin(rng, ctx, "C04")  # correctly check-summed readouts through two reader objects used alternately
        if i < 1:
            ctx.sample({"base": base.decode(), "variants": ["correct", "lower", "no_checksum", "0000", "0001", "FFFF", "+1", "-1", "one bit", "random", "bit flips"]})


def replay(case: dict, ctx) -> None:
    import random

    if case.get("twin"):
        from vf.props import c05 as c05mod

        c05mod.replay(case, ctx)
        return

    check_variant(case["readout"], case.get("expect_valid"), ctx, random.Random(0), case.get("label", "replay"))


def finalize(agg: dict, tier: str):
    c = agg["counters"]
    reasons = []
    for k in ("variant_cs_0000", "variant_correct", "variant_no_checksum", "variant_bitflip", "readouts_with_true_crc_0000",
              "reported_valid", "not_reported_valid", "payload_compared", "readouts_with_every_bit_flipped"):
        if c.get(k, 0) == 0:
            reasons.append(f"workload never produced '{k}'")
    return {}, reasons
