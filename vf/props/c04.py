"""C04 - P1: a readout is reported valid only if its CRC16 and identification check out.

Monitor: boundary recorder on DataReadout (from ModeDReader.read() under
splittings, and built directly from bytes) + reference model (bit-serial
CRC-16/ARC, liberal ident recogniser for soundness, strict generator for
completeness).
"""
from __future__ import annotations

from vf.gen import p1_gen, splits
from vf.mon import p1_mon
from vf.ref import crc16, p1_ref

ID = "C04"
LEVEL = "exploration"
RULE = (
    "base = strict readout (standard ident line, 0..60 data lines, CRLF/LF, correct checksum). variants per base: unchanged; the identification line damaged in 12 ways (bare CR, control / high-bit characters, missing baud digit, ...) with the checksum recomputed for the damaged bytes or left out, so that the verdict rests on the identification line alone; checksum text replaced by "
    "{correct in lower/mixed case, 0000, 0001, FFFF, correct+-1, random 4 hex}; checksum removed; single-bit flips (every bit of small readouts, random bits "
    "of larger ones); good + damaged pairs and noise + good readouts through one reader; plus readouts searched to have a true CRC of 0x0000; plus readouts whose end character sits at every byte index next to a power of two (64..65536) and to the multiples of 4096 / 8191 / 1000 (correct checksum, +1, the CRC of the bytes before the end character, none). Each variant is checked as DataReadout(bytes) and as returned by "
    "ModeDReader.read() under several splittings. evaluations = validity verdicts observed; distinct non-trivial = distinct variant byte strings "
    "that carry a checksum field (4 hex digits after '!')."
)
ASSUMPTIONS = [
    "CRC model vf/ref/crc16.py (CRC-16/ARC('123456789') = 0xBB3D checked in setup)",
    "soundness uses a liberal ident recogniser (/ + 3 letters + digit + printable), completeness a strict generator, so the oracle never demands more than the statement",
    "with several '!' in a readout the oracle accepts validity if ANY of them, taken as end character, has no bad checksum after it",
    "an exception from is_valid counts as 'not reported valid' here and is decided by C14",
]
WATCHDOG_S = {"quick": 900, "thorough": 7200}
N_BASE = {"quick": 90, "thorough": 1500}


def plan(tier: str, seed: int) -> list[dict]:
    shards = [{"kind": "gen", "n": N_BASE[tier]} for _ in range(15)]
    shards.append({"kind": "zero_crc", "n": 6 if tier == "quick" else 120})
    shards.append({"kind": "suite"})
    for k in range(4):
        shards.append({"kind": "sized", "rem": k, "mod": 4, "tier": tier})
    for k in range(2 if tier == "quick" else 8):
        shards.append({"kind": "fixed_points", "k": k, "n": 4 if tier == "quick" else 12})
    return shards


def judge(r: bytes, obs: dict, ctx, case: dict, expect_valid: bool | None, via: str) -> None:
    """Apply the oracles to one observed readout with bytes r."""
    ctx.case(None, False)
    valid = obs["valid"]
    if obs["exceptions"]:
        for k, ex in obs["exceptions"].items():
            ctx.count(f"accessor_raised_{k}")
            ctx.seen("exceptions(decided by C14)", p1_mon.where(ex))
    verdicts = p1_ref.checksum_verdicts(r)
    if "ok" in verdicts or "bad" in verdicts:
        ctx.case(b"v" + r, True, 0)
    if valid is True:
        ctx.count("reported_valid")
        first = r[: r.find(b"\n") + 1] if b"\n" in r else r
        if not p1_ref.is_liberal_ident(first):
            ctx.violation("C04:valid-without-ident-line", f"{via}: readout starting {first[:40]!r} reported valid", case)
        if verdicts and all(v == "bad" for v in verdicts):
            e = r.find(b"!")
            tail = r[e + 1 :].strip()
            zero = "transmitted-0000" if len(verdicts) == 1 and int(tail, 16) == 0 else "nonzero"
            ctx.violation(
                f"C04:valid-with-wrong-checksum:{zero}",
                f"{via}: checksum text {tail!r}, CRC16('/'..'!') = {crc16.crc16(r[: e + 1]):04X}, reported valid",
                case,
            )
        if r.count(b"!") == 1 and b"\n" in r[: r.find(b"!")]:
            _f, want_payload, _t = p1_ref.split_readout(r)
            if obs["payload"] != want_payload:
                ctx.violation("C04:payload", f"{via}: payload {obs['payload']!r:.80} != bytes between ident line and '!' {want_payload!r:.80}", case)
            else:
                ctx.count("payload_compared")
    else:
        ctx.count("not_reported_valid")
    if expect_valid is True and valid is not True:
        why = "raised " + ",".join(type(e).__name__ for e in obs["exceptions"].values()) if obs["exceptions"] else f"is_valid={valid!r}"
        ctx.violation("C04:good-readout-invalid", f"{via}: well-formed, correctly check-summed readout not reported valid ({why})", case)


def check_variant(r: bytes, expect_valid: bool | None, ctx, rng, label: str) -> None:
    from han.dlde import DataReadout

    ctx.count(f"variant_{label}")
    case = {"readout": r, "label": label, "expect_valid": expect_valid}
    d, ex = p1_mon.safe(lambda: DataReadout(r))
    if ex is None:
        first = p1_mon.observe(d)
        judge(d.as_bytes, first, ctx, dict(case, via="direct"), expect_valid, "DataReadout(bytes)")
        # a verdict is a function of the bytes: asking the same object again (as a protocol and then the application do) gives it again
        again = p1_mon.observe(d)
        if (again["valid"], again["payload"], again["bytes"]) != (first["valid"], first["payload"], first["bytes"]):
            ctx.violation("C04:readout-changed-after-return", f"DataReadout(bytes): is_valid / payload answered {first['valid']!r} first and {again['valid']!r} when asked again", dict(case, via="direct"))
    else:
        ctx.count("constructor_raised")
        if expect_valid:
            ctx.violation("C04:good-readout-rejected-by-constructor", f"DataReadout(bytes) raised {ex!r}", case)
    specs = [("none",), splits.random_spec(rng, len(r))]
    if len(r) < 200:
        specs.append(("bytewise",))
    for spec in specs:
        obs, exc, _ = p1_mon.run(splits.chunks(r, spec))
        if exc is not None:
            ctx.count("read_raised")
            ctx.seen("exceptions(decided by C14)", p1_mon.where(exc))
        if expect_valid and not exc and len(obs) != 1:
            ctx.violation("C04:good-readout-not-returned", f"reader returned {len(obs)} readouts for one well-formed readout (split {spec[0]})", dict(case, split=list(spec)))
        for o in obs:
            if o.get("changed_later"):
                ctx.violation("C04:readout-changed-after-return", "a returned readout answered differently (bytes/validity/payload) after later read() calls", dict(case, split=list(spec)))
            if o["bytes"] is None:
                continue
            same = o["bytes"] == r
            judge(o["bytes"], o, ctx, dict(case, via="reader", split=list(spec)), expect_valid if same else None, f"reader[{spec[0]}]")


def check_pair(base: bytes, rng, ctx) -> None:
    """A good readout followed by a same-length damaged copy through ONE reader: each verdict must be about its own bytes."""
    b = bytearray(base)
    lf = base.find(b"\n")
    bang = base.rfind(b"!")
    if bang - lf < 4:
        return
    pos = rng.randrange(lf + 1, bang)
    b[pos] = b[pos] ^ 0x01 if b[pos] not in (0x0A, 0x0D, 0x21, 0x20) else 0x30
    damaged = bytes(b)
    if damaged == base or b"!" in damaged[:bang] or damaged.count(b"\n") != base.count(b"\n"):
        return
    for order in ((base, damaged), (damaged, base)):
        stream = order[0] + order[1]
        for spec in (("none",), splits.random_spec(rng, len(stream))):
            obs, exc, _ = p1_mon.run(splits.chunks(stream, spec))
            case = {"readout": stream, "label": "pair_good_damaged", "expect_valid": None, "split": list(spec)}
            ctx.count("pairs_through_one_reader")
            for o, sent in zip(obs, order):
                if o.get("changed_later"):
                    ctx.violation("C04:readout-changed-after-return", "a returned readout answered differently after the next readout was read", case)
                if o["bytes"] is not None:
                    judge(o["bytes"], o, ctx, dict(case, via="reader-pair"), True if (sent == base and o["bytes"] == base) else None, f"reader-pair[{spec[0]}]")
                if o["bytes"] != sent:
                    ctx.violation("C04:readout-bytes-differ-from-sent", "readout returned by the reader is not byte-identical to the one sent", case)


def check_after_noise(base: bytes, rng, ctx) -> None:
    """Noise (incl. over-long lines/readouts that trip the reader's guard), then good readouts through the SAME reader:
    every returned readout is judged on its own bytes; a byte-identical good one must be valid."""
    from vf.props import c16

    noise, kind = c16.p1_noise(rng)
    others = [p1_gen.strict_readout(rng, None, rng.choice((0, 2, 5))) for _ in range(2)]
    sent = [base] + others
    stream = noise + b"".join(sent)
    for spec in (("none",), ("fixed", rng.choice((64, 100, 1000, 4096)), rng.randrange(64)), splits.random_spec(rng, len(stream))):
        obs, exc, _ = p1_mon.run(splits.chunks(stream, spec))
        ctx.count("after_noise_executions")
        case = {"readout": stream, "label": f"after_noise:{kind}", "expect_valid": None, "split": list(spec)}
        for o in obs:
            if o["bytes"] is None:
                continue
            judge(o["bytes"], o, ctx, dict(case, via="reader-after-noise"), True if o["bytes"] in sent else None, f"reader-after-noise[{kind}]")


def variants_of(base: bytes, rng, ctx, exhaustive_flips: bool) -> None:
    good = p1_gen.correct_checksum(base)
    check_pair(base, rng, ctx)
    check_after_noise(base, rng, ctx)
    check_variant(base, True, ctx, rng, "correct")
    hx = "%04X" % good
    if hx.lower() != hx:
        check_variant(p1_gen.with_checksum_text(base, hx.lower().encode()), True, ctx, rng, "correct_lowercase")
        mixed = "".join(c.lower() if i % 2 else c for i, c in enumerate(hx))
        check_variant(p1_gen.with_checksum_text(base, mixed.encode()), True, ctx, rng, "correct_mixedcase")
    check_variant(p1_gen.with_checksum_text(base, b""), True, ctx, rng, "no_checksum")
    ident_variants(base, rng, ctx)
    end_character_in_ident_variants(base, rng, ctx)
    wrong_span_variants(base, rng, ctx)
    data_variants(base, rng, ctx)
    for text, label in ((0, "0000"), (1, "0001"), (0xFFFF, "FFFF"), (((good & 0xFF) << 8) | (good >> 8), "byte_swapped"), (good ^ 0xFFFF, "complemented"), ((good + 1) & 0xFFFF, "plus1"), ((good - 1) & 0xFFFF, "minus1"),
                        (good ^ (1 << rng.randrange(16)), "one_bit"), (rng.randrange(65536), "random")):
        exp = True if text == good else False
        check_variant(p1_gen.with_checksum_text(base, b"%04X" % text), exp, ctx, rng, "cs_" + label)
        if label in ("0000", "random"):
            check_variant(p1_gen.with_checksum_text(base, (b"%04x" % text)), exp, ctx, rng, "cs_" + label + "_lower")
    nbits = len(base) * 8
    if exhaustive_flips and nbits <= 1000:
        positions = range(nbits)
        ctx.count("readouts_with_every_bit_flipped")
    else:
        positions = [rng.randrange(nbits) for _ in range(12)]
    for pos in positions:
        b = bytearray(base)
        b[pos // 8] ^= 1 << (pos % 8)
        check_variant(bytes(b), None, ctx, rng, "bitflip")


IDENT_DAMAGE = ("bare_cr", "control_char", "bit_flip", "no_baud_digit", "digit_in_manufacturer", "lower_case_first_letter", "slash_only",
                "over_long", "embedded_lf", "blank_before_slash_text", "second_slash", "high_bit", "utf8_digit_for_baud", "utf8_after_escape", "utf8_space_at_end", "utf8_letter_in_id")


def damaged_ident(base: bytes, rng, kind: str) -> bytes | None:
    """The readout with its identification line damaged (the rest untouched; no '!' is introduced)."""
    lf = base.find(b"\n")
    eol_len = 2 if base[lf - 1 : lf] == b"\r" else 1
    line, eol, rest = bytearray(base[: lf + 1 - eol_len]), base[lf + 1 - eol_len : lf + 1], base[lf + 1 :]
    if kind == "bare_cr":
        line.insert(rng.randrange(5, len(line) + 1), 0x0D)
    elif kind == "control_char":
        line.insert(rng.randrange(1, len(line) + 1), rng.choice((0x00, 0x09, 0x0B, 0x1B, 0x1F, 0x7F)))
    elif kind == "high_bit":
        line.insert(rng.randrange(1, len(line) + 1), rng.choice((0x80, 0x85, 0xA0, 0xC5, 0xFF)))
    elif kind == "utf8_digit_for_baud":
        # well-formed multi-byte UTF-8 (a lone high byte is rejected by any text decoder; these are not): digits and letters of other scripts
        line[4:5] = rng.choice(("\u0665", "\uff15", "\u0969", "\u00b2")).encode("utf-8")
    elif kind == "utf8_after_escape":
        line[5:5] = b"\\" + rng.choice(("\u00e9", "\u0665", "\u6f22", "\u00df")).encode("utf-8")
    elif kind == "utf8_space_at_end":
        line += rng.choice(("\u00a0", "\u0085", "\u2003", "\u3000", "\u2028")).encode("utf-8")
    elif kind == "utf8_letter_in_id":
        line.insert(rng.randrange(5, len(line) + 1), 0)
        i = line.index(0, 5)
        line[i : i + 1] = rng.choice(("\u00e4", "\u6f22", "\U0001f50c", "\u0416")).encode("utf-8")
    elif kind == "bit_flip":
        i = rng.randrange(len(line))
        line[i] ^= 1 << rng.randrange(8)
        if line[i] in (0x21, 0x0A):
            return None
    elif kind == "no_baud_digit":
        del line[4]
    elif kind == "digit_in_manufacturer":
        line[rng.randrange(1, 4)] = rng.choice(b"0123456789")
    elif kind == "lower_case_first_letter":
        i = rng.randrange(1, 3)
        line[i] = line[i] | 0x20
    elif kind == "slash_only":
        line = bytearray(b"/")
    elif kind == "over_long":
        line += bytes(rng.choice(b"ABCxyz0189 -_") for _ in range(rng.choice((17, 20, 40, 200))))
    elif kind == "embedded_lf":
        line.insert(rng.randrange(1, len(line) + 1), 0x0A)
    elif kind == "blank_before_slash_text":
        line = bytearray(b"/ ") + line[1:]
    elif kind == "second_slash":
        line.insert(rng.randrange(1, 5), 0x2F)
    return bytes(line) + eol + rest


def ident_variants(base: bytes, rng, ctx) -> None:
    """Checksum right (or absent), identification line wrong: the verdict then rests on the identification line alone."""
    for kind in IDENT_DAMAGE:
        d = damaged_ident(base, rng, kind)
        if d is None or d.count(b"!") != 1:
            continue
        ctx.count("ident_line_damaged_checksum_recomputed_or_absent", 2)
        check_variant(p1_gen.with_checksum_text(d, b"%04X" % p1_gen.correct_checksum(d)), None, ctx, rng, "ident_" + kind)
        check_variant(p1_gen.with_checksum_text(d, b""), None, ctx, rng, "ident_" + kind + "_no_checksum")


def data_variants(base: bytes, rng, ctx) -> None:
    """A data byte outside ASCII (0x80, 0x81, 0xFF, ...), checksum right for those bytes or absent: whatever the verdict, a valid one owns its payload."""
    lf, bang = base.find(b"\n"), base.rfind(b"!")
    if bang - lf < 3:
        return
    for hi in (0x80, 0x81, rng.choice((0xA0, 0xC3, 0xFF))):
        b = bytearray(base)
        b[rng.randrange(lf + 1, bang)] = hi
        d = bytes(b)
        ctx.count("non_ascii_data_byte_checksum_recomputed_or_absent", 2)
        check_variant(p1_gen.with_checksum_text(d, b"%04X" % p1_gen.correct_checksum(d)), None, ctx, rng, "data_%02X" % hi if hi < 0x82 else "data_high")
        check_variant(p1_gen.with_checksum_text(d, b""), None, ctx, rng, "data_high_no_checksum")


def sized_targets(tier: str) -> list[int]:
    out = set()
    for k in range(6, 17 if tier == "quick" else 19):
        out.update((2**k - 1, 2**k, 2**k + 1))
    for m in range(1, 17 if tier == "quick" else 65):
        out.update((4096 * m - 1, 4096 * m, 4096 * m + 1, 1000 * m, 8191 * m, 8191 * m + 1))
    return sorted(out)


def sized_readout(rng, bang_index: int) -> bytes | None:
    """A strict readout whose end character '!' sits at exactly this byte index (a text-message line takes up the slack)."""
    ident, _, _ = p1_ref.strict_ident(rng)
    lines = [p1_gen.dsmr_line(rng) if hasattr(p1_gen, "dsmr_line") and rng.random() < 0.5 else b"1-0:1.8.0(000123.456*kWh)" for _ in range(rng.choice((0, 1, 3)))]
    fixed = len(ident) + 4 + sum(len(x) + 2 for x in lines)
    overhead = len(b"0-0:96.13.0()") + 2
    slack = bang_index - fixed - overhead
    if slack < 0:
        return None
    lines.insert(rng.randrange(len(lines) + 1), b"0-0:96.13.0(" + bytes(rng.choice(b"0123456789ABCDEF") for _ in range(slack)) + b")")
    r = p1_ref.build_readout(ident, lines)
    return r if r.find(b"!") == bang_index else None


def run_sized(shard: dict, ctx) -> None:
    """Block-wise checksum code has its corners where a block ends: every size near a power of two and near the multiples of 4096 / 8191 / 1000."""
    from han.dlde import DataReadout

    rng = ctx.rng("c04", "sized", shard["rem"])
    for i, t in enumerate(sized_targets(shard["tier"])):
        if i % shard["mod"] != shard["rem"]:
            continue
        r = sized_readout(rng, t)
        if r is None:
            continue
        good = p1_gen.correct_checksum(r)
        before_bang = crc16.crc16(r[: r.find(b"!")])
        for text, expect, label in ((b"%04X" % good, True, "sized_correct"), (b"%04X" % ((good + 1) & 0xFFFF), False, "sized_plus1"), (b"%04X" % before_bang, before_bang == good, "sized_crc_of_bytes_before_end_character"), (b"", True, "sized_no_checksum")):
            v = p1_gen.with_checksum_text(r, text)
            ctx.count("variant_" + label)
            if len(v) <= 8000:
                check_variant(v, expect, ctx, rng, label)
                continue
            case = {"readout": v, "label": label, "expect_valid": expect}
            d, ex = p1_mon.safe(lambda: DataReadout(v))
            if ex is not None:
                ctx.violation("C04:good-readout-rejected-by-constructor", f"DataReadout(bytes) raised {ex!r}", case)
                continue
            judge(d.as_bytes, p1_mon.observe(d), ctx, dict(case, via="direct"), expect, "DataReadout(bytes)")
        ctx.count("end_character_positions_swept")
        ctx.maximum("largest_end_character_index", t)


def end_character_in_ident_variants(base: bytes, rng, ctx) -> None:
    """The end character inside the identification line (a printable character like any other there): '/XXX5id!' followed by a checksum
    that is right, wrong or absent, with nothing else, and with a data block and a second end line behind it."""
    lf = base.find(b"\n")
    eol = b"\r\n" if base[lf - 1 : lf] == b"\r" else b"\n"
    ident = base[: lf + 1 - len(eol)]
    cut = rng.randrange(5, len(ident) + 1)
    head = ident[:cut] + b"!"
    good = crc16.crc16(head)
    rest = base[lf + 1 :]
    for text, label in ((b"%04X" % good, "right"), (b"%04X" % ((good + 1) & 0xFFFF), "wrong"), (b"%04X" % (good ^ 0x8000), "wrong_high_bit"), (b"", "absent")):
        for tail in (eol, ident[cut:] + eol + rest):
            r = head + text + tail
            ctx.count("end_character_inside_the_identification_line")
            case = {"readout": r, "label": "bang_in_ident_" + label, "expect_valid": None}
            from han.dlde import DataReadout

            d, ex = p1_mon.safe(lambda: DataReadout(r))
            if ex is None:
                judge(d.as_bytes, p1_mon.observe(d), ctx, dict(case, via="direct"), None, "DataReadout(bytes)")
            else:
                ctx.count("constructor_raised")


def wrong_span_variants(base: bytes, rng, ctx) -> None:
    """The transmitted checksum is the CRC16 of *another span* of the readout (the data block alone, everything before the end character,
    the identification line alone, everything after it): right for that span, wrong for '/'..'!'."""
    lf, bang = base.find(b"\n"), base.rfind(b"!")
    good = p1_gen.correct_checksum(base)
    for label, span in (("data_block_and_end_character", base[lf + 1 : bang + 1]), ("before_end_character", base[:bang]), ("identification_line", base[: lf + 1]),
                        ("data_block", base[lf + 1 : bang]), ("whole_readout_with_old_checksum", base)):
        c = crc16.crc16(span)
        if c != good:
            check_variant(p1_gen.with_checksum_text(base, b"%04X" % c), False, ctx, rng, "cs_crc_of_" + label)


def run_fixed_points(shard: dict, ctx) -> None:
    """Readouts whose checksum text is the CRC16 of a span that *contains the checksum text itself* (the whole readout, the whole first
    line): found by searching the 65 536 candidates for a fixed point."""
    from han.dlde import DataReadout

    rng = ctx.rng("c04", "fixed", shard.get("k", 0))
    found = 0
    for _ in range(shard["n"]):
        ident = p1_ref.strict_ident(rng)[0]
        shape = rng.choice(("end_character_in_ident", "end_character_in_ident", "with_data"))
        eol = rng.choice((b"\r\n", b"\n"))
        head = ident[: rng.randrange(5, len(ident) + 1)] + b"!" if shape == "end_character_in_ident" else ident + eol + b"1-0:1.8.0(%06d.%03d*kWh)" % (rng.randrange(10**6), rng.randrange(1000)) + eol + b"!"
        state = crc16.crc16(head)
        for h in range(0x10000):
            if h != state and crc16.crc16(b"%04X" % h + eol, state) == h:
                r = head + b"%04X" % h + eol
                found += 1
                ctx.count("readouts_whose_checksum_is_the_crc_of_the_whole_readout")
                case = {"readout": r, "label": "fixed_point", "expect_valid": None}
                d, ex = p1_mon.safe(lambda: DataReadout(r))
                if ex is None:
                    judge(d.as_bytes, p1_mon.observe(d), ctx, dict(case, via="direct"), None, "DataReadout(bytes)")
                ctx.case(b"fixed" + r, True)
                break
    ctx.count("fixed_point_searches", shard["n"])


def find_zero_crc(rng, ctx):
    """A strict readout whose true CRC is 0x0000 (search over a free 5-character value)."""
    ident, _, _ = p1_ref.strict_ident(rng)
    head = ident + b"\r\n\r\n1-0:1.8.0(1.5*kWh)\r\n0-0:96.1.1("
    state = crc16.crc16(head)
    alphabet = b"0123456789ABCDEFGHIJKLMNOPQRSTUVWXYZabcdefghijklmnopqrstuvwxyz"
    for tries in range(1 << 20):
        val = bytes(rng.choice(alphabet) for _ in range(5))
        if crc16.crc16(val + b")\r\n!", state) == 0:
            ctx.count("zero_crc_search_tries", tries + 1)
            return head + val + b")\r\n!0000\r\n"
    return None


def run(shard: dict, ctx) -> None:
    if shard.get("kind") == "suite":
        from vf.mon import suite

        suite.run_suite(ctx, "C04")
        return
    if shard["kind"] == "sized":
        return run_sized(shard, ctx)
    if shard["kind"] == "fixed_points":
        return run_fixed_points(shard, ctx)
    rng = ctx.rng("c04", shard["kind"])
    if shard["kind"] == "zero_crc":
        for _ in range(shard["n"]):
            r = find_zero_crc(rng, ctx)
            if r is None:
                ctx.note_inconclusive("no readout with CRC 0x0000 found in 2^20 tries")
                continue
            ctx.count("readouts_with_true_crc_0000")
            check_variant(r, True, ctx, rng, "true_crc_0000")
            check_variant(p1_gen.with_checksum_text(r, b"0001"), False, ctx, rng, "true_crc_0000_but_0001_sent")
            check_variant(p1_gen.with_checksum_text(r, b""), True, ctx, rng, "true_crc_0000_no_checksum")
            ctx.sample({"readout_with_true_crc_0000": r.decode()})
        return
    for i in range(shard["n"]):
        n_lines = rng.choice((0, 1, 1, 2, 3, 8, 20, 60))
        base = p1_gen.strict_readout(rng, None, n_lines)
        variants_of(base, rng, ctx, exhaustive_flips=(i % 6 == 0 and n_lines <= 1))
        from vf.props import c05 as c05mod

        c05mod.twin(rng, ctx, "C04")  # correctly check-summed readouts through two reader objects used alternately
        if i < 1:
            ctx.sample({"base": base.decode(), "variants": ["correct", "lower", "no_checksum", "0000", "0001", "FFFF", "+1", "-1", "one bit", "random", "bit flips"]})


def replay(case: dict, ctx) -> None:
    import random

    if case.get("twin"):
        from vf.props import c05 as c05mod

        c05mod.replay(case, ctx)
        return

    check_variant(case["readout"], case.get("expect_valid"), ctx, random.Random(0), case.get("label", "replay"))


def finalize(agg: dict, tier: str):
    c = agg["counters"]
    reasons = []
    for k in ("variant_cs_0000", "variant_correct", "variant_no_checksum", "variant_bitflip", "readouts_with_true_crc_0000",
              "reported_valid", "not_reported_valid", "payload_compared", "readouts_with_every_bit_flipped", "ident_line_damaged_checksum_recomputed_or_absent", "end_character_positions_swept"):
        if c.get(k, 0) == 0:
            reasons.append(f"workload never produced '{k}'")
    return {}, reasons
