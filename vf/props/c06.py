"""C06 - HDLC reader output does not depend on how the byte stream is chunked.

Metamorphic monitor over pairs of executions of the real reader: the sequence
of (as_bytes, is_valid, payload) returned for a stream fed in one call must be
the sequence returned for every other splitting. A clean suffix of two
well-formed frames is appended to every stream so that state that was carried
wrongly across a call boundary becomes visible at the API.
"""
from __future__ import annotations

import itertools

from vf.gen import hdlc_gen, splits
from vf.mon import hdlc_mon
from vf.props import c01 as c01mod
from vf.ref import hdlc_ref

ID = "C06"
LEVEL = "exploration"
ALPHA_A = bytes((0x7E, 0x7D, 0xA0, 0x07, 0x08, 0x21, 0x02, 0x5E))
ALPHA_B = bytes((0x7E, 0x7D, 0x00, 0x07, 0x21))
RULE = (
    "exhaustive part: every stream up to length LA over the 8-symbol alphabet {7E,7D,A0,07,08,21,02,5E} (byte-at-a-time and every single cut) "
    "and every stream up to length LB over {7E,7D,00,07,21} (long enough to contain complete frames: byte-at-a-time, two random cuts), each under "
    "the 4 reader configurations, each followed by a clean two-frame suffix; reference = the same stream in one read() call. "
    "random part: flag/escape-dense and uniform streams up to 400 octets, long homogeneous runs, C01's corrupted-frame streams (some 10..40 KB so that limits are crossed inside one read()) "
    "under random multi-cuts, fixed sizes, cuts near multiples of 2047/2048/8191/8192 and cuts right after every n-th flag; plus twin executions: two reader objects fed alternately must each return what they return alone. "
    "evaluations = executions of the reader; distinct non-trivial = distinct (configuration, stream) pairs compared under >= 2 splittings "
    "(exhaustive part distinct by construction). quick: LA=5, LB=7; thorough: LA=6, LB=9."
)
ASSUMPTIONS = [
    "None and b'' payloads are the same observation",
    "differences in carried state that never influence any later output are invisible (and irrelevant to the statement)",
]
WATCHDOG_S = {"quick": 900, "thorough": 7200}
SUFFIX_FRAMES = [
    hdlc_ref.build(0xA, False, b"\x21", b"\x13", 0x13, b"\x81\x82\x7e\x7d\x83"),
    hdlc_ref.build(0xA, False, b"\x02\x23", b"\x21", 0x32, b""),
]


def suffix(cfg) -> bytes:
    out = bytearray([0x7E])
    for f in SUFFIX_FRAMES:
        out += hdlc_gen.on_wire(f, cfg[0])
        out += b"\x7e"
    return bytes(out)


def plan(tier: str, seed: int) -> list[dict]:
    la, lb = (5, 7) if tier == "quick" else (6, 9)
    shards = []
    for k in range(16):
        shards.append({"kind": "exh", "alpha": "A", "maxlen": la, "mod": 16, "rem": k})
    for k in range(16):
        shards.append({"kind": "exh", "alpha": "B", "maxlen": lb, "mod": 16, "rem": k})
    n = 220 if tier == "quick" else 30000
    for k in range(16):
        shards.append({"kind": "random", "n": n})
    # a fixed family (independent of the random draw): every boundary-value frame kind x every configuration, each frame delivered as a
    # call of its own ('flag frame flag'), as 'frame flag', flag by flag, octet by octet and in one call
    shards.append({"kind": "frame_per_call", "n": 12 if tier == "quick" else 200})
    return shards


def run_frame_per_call(shard: dict, ctx) -> None:
    rng = ctx.rng("c06", "frame_per_call")
    kinds = ("hcs_zero", "hcs_flags", "fcs_zero", "fcs_ffff", "fcs_ends_7d", "fcs_has_7e", "reg_zero_mid", "near_max_dense", "header_only_fcs_zero", "fcs_equals_other_field", "info_repeats_own_header_after_a_flag")
    n = 0
    for rep in range(shard["n"]):
        for kind in kinds:
            for cfg in hdlc_gen.CONFIGS:
                frames = [hdlc_gen.special_frame(rng, None, kind)[0], hdlc_gen.good_frame(rng, None, max_info=30, want_info=True)[0], hdlc_gen.special_frame(rng, None, kind)[0]]
                wires = [hdlc_gen.on_wire(f, cfg[0]) for f in frames]
                for style in ("own_flags", "shared_flag"):
                    if style == "own_flags":
                        stream = b"".join(b"\x7e" + w + b"\x7e" for w in wires)
                        cuts, pos = [], 0
                        for w in wires[:-1]:
                            pos += len(w) + 2
                            cuts.append(pos)
                    else:
                        stream = b"\x7e" + b"\x7e".join(wires) + b"\x7e"
                        cuts, pos = [1], 1
                        for w in wires[:-1]:
                            pos += len(w) + 1
                            cuts.append(pos)
                    specs = [("cuts", cuts), splits.aligned_spec(stream, 0x7E, 1), splits.aligned_spec(stream, 0x7E, 1, 0)]
                    if len(stream) < 1500:
                        specs.append(("bytewise",))
                    n += compare(cfg, stream, specs, ctx)
                    ctx.case(b"fpc" + bytes(cfg) + stream, True)
    ctx.count("boundary_value_frames_delivered_one_call_per_frame", n)


def compare(cfg, stream: bytes, specs, ctx, states=None) -> int:
    """Returns number of executions."""
    full = stream + suffix(cfg)
    ref, exc = hdlc_mon.run(cfg, [full])
    ref_t = [hdlc_mon.triple(o) for o in ref]
    ref_exc = type(exc).__name__ if exc else None
    n = 1
    for spec in specs:
        got, exc2 = hdlc_mon.run(cfg, splits.chunks(full, spec), states=states)
        n += 1
        got_t = [hdlc_mon.triple(o) for o in got]
        got_exc = type(exc2).__name__ if exc2 else None
        if got_t != ref_t or got_exc != ref_exc:
            if len(got_t) != len(ref_t):
                kind = "frame-count"
            elif [g[0] for g in got_t] != [r[0] for r in ref_t]:
                kind = "frame-octets"
            elif got_exc != ref_exc:
                kind = "exception"
            else:
                kind = "validity-or-payload"
            ctx.violation(
                f"C06:chunking-changes-output:{kind}",
                f"cfg {cfg}: one call -> {len(ref_t)} frames {[r[0].hex()[:24] for r in ref_t][:4]} exc={ref_exc}; split {spec[0]} -> {len(got_t)} frames {[g[0].hex()[:24] for g in got_t][:4]} exc={got_exc}",
                {"cfg": list(cfg), "stream": stream, "split": list(spec)},
            )
    if ref_t and len(ref_t) != 2:
        ctx.count("streams_whose_own_bytes_changed_the_frame_list")
    return n


def run(shard: dict, ctx) -> None:
    if shard.get("kind") == "frame_per_call":
        return run_frame_per_call(shard, ctx)
    states: set = set()
    if shard["kind"] == "exh":
        alpha = ALPHA_A if shard["alpha"] == "A" else ALPHA_B
        rng = ctx.rng("c06", shard["alpha"])
        idx = 0
        n_streams = 0
        n_exec = 0
        for length in range(0, shard["maxlen"] + 1):
            for tup in itertools.product(alpha, repeat=length):
                idx += 1
                if idx % shard["mod"] != shard["rem"]:
                    continue
                stream = bytes(tup)
                for cfg in hdlc_gen.CONFIGS:
                    total = length + len(suffix(cfg))
                    if shard["alpha"] == "A":
                        specs = [("bytewise",)] + [("single", c) for c in range(1, length + 2)]
                    else:
                        specs = [("bytewise",), ("cuts", sorted({rng.randint(1, length + 1), rng.randint(1, total - 1)}))]
                    n_exec += compare(cfg, stream, specs, ctx, states)
                    n_streams += 1
        ctx.enumerated(n_exec, n_streams)
        ctx.count(f"exhaustive_{shard['alpha']}_stream_cfg_pairs", n_streams)
        ctx.sample({"alphabet": alpha.hex(), "maxlen": shard["maxlen"], "example_stream": bytes(alpha[:3]).hex()})
    else:
        rng = ctx.rng("c06", "random")
        for i in range(shard["n"]):
            cfg = hdlc_gen.CONFIGS[rng.randrange(4)]
            r = rng.random()
            if r < 0.35:
                stream, fl = hdlc_gen.noise(rng, rng.randint(1, 400), "dense")
            elif r < 0.55:
                stream, fl = hdlc_gen.noise(rng, rng.randint(1, 400), "random")
            elif r < 0.58:
                stream, fl = hdlc_gen.long_run(rng)
                fl = "long_run"
            elif r < 0.595:
                stream, _ = c01mod.make_stream(rng, cfg, big=True)  # 10..40 KB: limits are crossed inside one read()
                fl = "big_frames"
            else:
                stream, _ = c01mod.make_stream(rng, cfg)
                fl = "frames"
            total = len(stream) + len(suffix(cfg))
            specs = [splits.random_spec(rng, total) for _ in range(3)] + [splits.limit_spec(rng, total), splits.aligned_spec(stream, 0x7E, rng.choice((1, 2, 4)))]
            specs.append(("bytewise",) if total < 5000 else ("fixed", rng.choice((1000, 4096, 8192)), rng.randrange(1000)))
            specs.append(splits.structural_spec(stream, rng))  # calls that begin with a flag and end right after an escape octet
            if total > 8000:
                specs.append(("single", rng.randint(1, 40)))
            n = compare(cfg, stream, specs, ctx, states)
            ctx.case(bytes(cfg) + stream, True, n)
            ctx.count(f"random_{fl}")
            if i % 4 == 0:
                twin(rng, ctx)
            if i < 1:
                ctx.sample({"cfg": list(cfg), "kind": fl, "stream": stream[:120], "splits": [list(s)[:2] for s in specs]})
    for s in states:
        ctx.seen("state_at_cut_point(hunt,pending_escape,partial)", s)


def twin(rng, ctx) -> None:
    """Two reader objects fed alternately must each behave exactly as when used alone (no state shared between instances)."""
    cfgs = [hdlc_gen.CONFIGS[rng.randrange(4)] for _ in range(2)]
    streams = [c01mod.make_stream(rng, c)[0] + suffix(c) for c in cfgs]
    chunk_lists = [splits.chunks(st, splits.random_spec(rng, len(st)) if rng.random() < 0.7 else ("bytewise",)) for st in streams]
    solo = []
    for c, chunks in zip(cfgs, chunk_lists):
        obs, exc = hdlc_mon.run(c, chunks)
        solo.append([hdlc_mon.triple(o) for o in obs])
    readers = [hdlc_mon.new_reader(c) for c in cfgs]
    got = [[], []]
    idx = [0, 0]
    order = []
    while idx[0] < len(chunk_lists[0]) or idx[1] < len(chunk_lists[1]):
        k = rng.randrange(2)
        if idx[k] >= len(chunk_lists[k]):
            k = 1 - k
        order.append(k)
        try:
            for f in readers[k].read(chunk_lists[k][idx[k]]):
                if f is hdlc_mon.POISON:
                    ctx.violation("C06:returned-list-shared-between-calls", "read() handed back an object that a caller had appended to the list returned by an earlier call", {"twin": True, "cfgs": [list(c) for c in cfgs], "chunks": [list(cl) for cl in chunk_lists], "order": order})
                    return
                got[k].append(hdlc_mon.triple(hdlc_mon.observe(f)))
        except Exception:
            ctx.count("read_raised(decided by C14)")
        idx[k] += 1
    ctx.count("twin_executions")
    for k in range(2):
        if got[k] != solo[k]:
            ctx.violation("C06:instances-share-state", f"reader {k} (cfg {cfgs[k]}) returned {len(got[k])} frames when interleaved with another reader object, {len(solo[k])} when used alone",
                          {"twin": True, "cfgs": [list(c) for c in cfgs], "chunks": [list(cl) for cl in chunk_lists], "order": order})


def replay_twin(case, ctx) -> None:
    cfgs = [tuple(c) for c in case["cfgs"]]
    solo = [[hdlc_mon.triple(o) for o in hdlc_mon.run(c, chunks)[0]] for c, chunks in zip(cfgs, case["chunks"])]
    readers = [hdlc_mon.new_reader(c) for c in cfgs]
    got = [[], []]
    idx = [0, 0]
    for k in case["order"]:
        for f in readers[k].read(case["chunks"][k][idx[k]]):
            if f is not hdlc_mon.POISON:
                got[k].append(hdlc_mon.triple(hdlc_mon.observe(f)))
        idx[k] += 1
    for k in range(2):
        if got[k] != solo[k]:
            ctx.violation("C06:instances-share-state", f"reader {k} differs when interleaved", case)


def replay(case: dict, ctx) -> None:
    if case.get("twin"):
        replay_twin(case, ctx)
        return
    compare(tuple(case["cfg"]), case["stream"], [tuple(case["split"])], ctx)


def finalize(agg: dict, tier: str):
    c = agg["counters"]
    reasons = []
    la, lb = (5, 7) if tier == "quick" else (6, 9)
    want_a = 4 * sum(8 ** k for k in range(la + 1))
    want_b = 4 * sum(5 ** k for k in range(lb + 1))
    got_a, got_b = c.get("exhaustive_A_stream_cfg_pairs", 0), c.get("exhaustive_B_stream_cfg_pairs", 0)
    if got_a != want_a or got_b != want_b:
        reasons.append(f"exhaustive enumeration incomplete: A {got_a}/{want_a}, B {got_b}/{want_b}")
    st = agg["sets"].get("state_at_cut_point(hunt,pending_escape,partial)", set())
    if not any("True, True" in s or "False, True" in s for s in st):
        reasons.append("no cut point with a pending escape was observed")
    extra = {
        "exhaustive": got_a == want_a and got_b == want_b,
        "exhaustive_scope": f"all streams of length <= {la} over {ALPHA_A.hex()} and <= {lb} over {ALPHA_B.hex()} x 4 configurations (random part is sampled)",
    }
    return extra, reasons
