"""C01 - HDLC: a frame is reported valid exactly when it is intact, with exact fields,
and frames are where the input says.

Monitor: boundary recorder on HdlcFrameReader.read() + reference model
(vf/ref/hdlc_ref.py). Three oracles per (configuration, stream, splitting):
 (a) is_valid == (length field == octet count and FCS-16 matches), two-sided;
 (b) accessors of valid frames equal the reference field split of as_bytes;
 (c) embedding: returned frames are an in-order, use-once selection of the
     flag-delimited segments of the raw input (un-stuffed when stuffing is on).
"""
from __future__ import annotations

from vf.gen import hdlc_gen, splits
from vf.mon import hdlc_mon
from vf.ref import hdlc_ref

ID = "C01"
LEVEL = "exploration"
RULE = (
    "stream = 1..6 items (every 40th stream 100..400 items, 15..70 KB, also fed as one tiny call followed by one huge call) (well-formed frame, 30% with boundary-value check sequences: HCS/FCS 0000, FFFF, ending in 7D, containing 7E, "
    "running FCS register 0000 mid-frame, near-maximum flag/escape-dense frames / corrupted frame [bit flip, truncation incl. right after the HCS, extra octets, "
    "wrong length field with HCS+FCS recomputed, swapped / inverted / incremented FCS, HCS and FCS both inverted] / noise [random, flag+escape dense, frame look-alike, abort sequence]) "
    "joined by 0..3 flags, stuffed on the wire when the configuration uses stuffing; each stream is run under one of the 4 reader "
    "configurations and several splittings (none, byte-at-a-time, every single cut if short, random cuts, fixed sizes, cuts near multiples of 2047/2048/8191/8192, cuts right after every n-th flag). "
    "evaluations = (configuration, stream, splitting) executions; distinct non-trivial = distinct (configuration, stream) digests that returned >= 1 frame."
)
ASSUMPTIONS = [
    "reference frame layout: vf/ref/hdlc_ref.py (ISO 13239 extension-bit addresses, FCS-16 of vf/ref/fcs16.py)",
    "a header-only frame may report payload None or b'' (the statement fixes octets, not Python spellings)",
    "check-sequence accessors are compared as the two octets in frame order (big-endian integer), as pinned by tests/test_hdlc.py",
    "an exception out of read() is tallied here and decided by C14",
]
WATCHDOG_S = {"quick": 900, "thorough": 7200}

N_STREAMS = {"quick": 420, "thorough": 26000}  # per shard, 16 shards


def plan(tier: str, seed: int) -> list[dict]:
    return [{"kind": "suite"}] + [{"kind": "gen", "n": N_STREAMS[tier]} for _ in range(16)]


def make_stream(rng, cfg, big: bool = False) -> tuple[bytes, list]:
    stuffing = cfg[0]
    ids = hdlc_gen.IdSource(rng)
    parts = bytearray()
    desc = []
    r = rng.random()
    if r < 0.3:
        nz, fl = hdlc_gen.noise(rng, rng.randint(1, 30))
        parts += nz
        desc.append(("noise", fl))
    parts += bytes([0x7E]) * rng.choice((1, 1, 2, 3))
    n_items = rng.randint(1, 6) if not big else rng.randint(100, 400)
    for _ in range(n_items):
        r = rng.random()
        if r < 0.5:
            if rng.random() < 0.3:
                fr, _d, kind = hdlc_gen.special_frame(rng, ids, None if not big else rng.choice(("hcs_zero", "fcs_zero", "reg_zero_mid", "fcs_ends_7d")))
                desc.append(("good", f"special:{kind}"))
            else:
                fr, _d = hdlc_gen.good_frame(rng, ids, max_info=rng.choice((None, 60, 60, 300)) if not big else 120)
                desc.append(("good", len(fr)))
            parts += hdlc_gen.on_wire(fr, stuffing)
            sib = hdlc_gen.sibling(rng, _d, ids) if rng.random() < 0.3 else None
            if sib is not None:
                # a frame that starts exactly like the previous one (same format / length field and first address octets), laid out differently
                parts += b"\x7e" + hdlc_gen.on_wire(sib[0], stuffing)
                desc.append(("good", "sibling_of_previous"))
        elif r < 0.8:
            fr, _d = hdlc_gen.good_frame(rng, ids, max_info=rng.choice((40, 40, 300, None)))
            bad, kind = hdlc_gen.corrupt(rng, fr)
            wire = hdlc_gen.on_wire(bad, stuffing)
            if rng.random() < 0.15 and wire:
                w = bytearray(wire)  # damage on the wire instead (may create flags / escapes)
                w[rng.randrange(len(w))] = rng.choice((0x7E, 0x7D, rng.randrange(256)))
                wire = bytes(w)
                kind += "+wire"
            parts += wire
            desc.append(("corrupt", kind))
        else:
            if rng.random() < 0.04:
                nz, fl = hdlc_gen.long_run(rng)
            else:
                nz, fl = hdlc_gen.noise(rng, rng.randint(1, 40))
            parts += nz
            desc.append(("noise", fl))
        parts += bytes([0x7E]) * rng.choice((0, 1, 1, 1, 2, 3))
    return bytes(parts), desc


def check_stream(cfg, stream: bytes, spec, ctx, states: set | None = None) -> bool:
    """Run one execution under the monitors. Returns True when >= 1 frame was returned."""
    chunks = splits.chunks(stream, spec)
    frames, exc = hdlc_mon.run(cfg, chunks, states=states)
    case = {"cfg": list(cfg), "stream": stream, "split": list(spec)}
    if exc is not None:
        ctx.count("read_raised")
        ctx.seen("exceptions", type(exc).__name__)
    for obs in frames:
        ctx.count("frames_observed")
        ctx.count("frames_valid" if obs["valid"] else "frames_invalid")
        ctx.count(f"cfg{int(cfg[0])}{int(cfg[1])}_" + ("valid" if obs["valid"] else "invalid"))
        for sig, msg in hdlc_mon.check_frame_exact(obs):
            ctx.violation(sig, msg, case)
        if obs.get("changed_later"):
            ctx.violation("C01:frame-changed-after-return", f"frame {obs['bytes'].hex()[:80]} answered differently (octets/validity/payload) after later read() calls", case)
        if obs["valid"] and not obs["payload"]:
            ctx.count("valid_header_only_frames")
    octs = [o["bytes"] for o in frames]
    if cfg[0]:
        bad = hdlc_ref.embedded_stuffed(stream, octs)
        if bad is not None:
            ctx.violation(
                "C01:not-embedded:stuffing",
                f"frame #{bad} {octs[bad].hex()[:100]} is not the un-stuffed content of a (so far unused, later) flag-delimited segment of the input",
                case,
            )
    else:
        bad = hdlc_ref.embedded_plain(stream, octs)
        if bad is not None:
            ctx.violation(
                "C01:not-embedded:plain",
                f"frame #{bad} {octs[bad].hex()[:100]} does not occur between two flags after the previous frame in the input",
                case,
            )
    return bool(frames)


def header_only_probe(cfg, stream: bytes, spec, ctx) -> None:
    """The caller keeps frame.header objects but drops the frames: the header accessors must still answer with the frame's octets."""
    import gc

    chunks = splits.chunks(stream, spec)
    ref, exc = hdlc_mon.run(cfg, chunks)
    if exc is not None or any(o.get("poison") for o in ref):
        return
    reader = hdlc_mon.new_reader(cfg)
    headers = []
    for ch in chunks:
        headers += [f.header for f in reader.read(ch)]
    gc.collect()
    case = {"cfg": list(cfg), "stream": stream, "split": list(spec), "header_only": True}
    ctx.count("header_only_probes")
    for h, obs in zip(headers, ref):
        for name, attr in (("length", "frame_length"), ("dst", "destination_address"), ("src", "source_address"), ("ctrl", "control"), ("hcs", "header_check_sequence")):
            try:
                got = getattr(h, attr)
            except Exception as ex:
                ctx.violation(f"C01:accessor:header-after-frame-dropped:{type(ex).__name__}", f"header.{attr} raised {ex!r} once the caller no longer held the frame object", case)
                return
            if obs["valid"] and got != obs[name]:
                ctx.violation("C01:accessor:header-after-frame-dropped:value", f"header.{attr} = {got!r} after the frame was dropped, {obs[name]!r} while it was held", case)
                return


def run(shard: dict, ctx) -> None:
    if shard.get("kind") == "suite":
        from vf.mon import suite

        suite.run_suite(ctx, "C01")
        return
    rng = ctx.rng("c01")
    states: set = set()
    for i in range(shard["n"]):
        cfg = hdlc_gen.CONFIGS[rng.randrange(4)]
        big = i % 40 == 39  # streams of 10..40 KB: more than the readers' internal limits consumed inside one read()
        stream, desc = make_stream(rng, cfg, big)
        if big:
            ctx.count("big_streams")
        for d in desc:
            ctx.count(f"item_{d[0]}" + (f"_{d[1]}" if d[0] != "good" else "") + ("_special" if d[0] == "good" and str(d[1]).startswith("special") else ""))
        specs = [("none",), ("bytewise",) if len(stream) < 6000 else ("fixed", 4096, rng.randrange(4096))] + [splits.random_spec(rng, len(stream), False) for _ in range(2)]
        specs.append(splits.limit_spec(rng, len(stream)))
        specs.append(splits.structural_spec(stream, rng))  # calls that begin with a flag and end right after an escape octet
        if big:
            specs.append(("single", rng.randint(1, 40)))  # a tiny first call, then everything else in one huge call
        specs.append(splits.aligned_spec(stream, 0x7E, rng.choice((1, 1, 2, 5))))
        if len(stream) <= 48:
            specs += [("single", c) for c in range(1, len(stream))]
        got_any = False
        for spec in specs:
            got_any |= check_stream(cfg, stream, spec, ctx, states)
            ctx.case(None, nontrivial=False)
        if got_any and i % 5 == 0 and len(stream) < 4000:
            header_only_probe(cfg, stream, specs[2], ctx)
        if got_any:
            ctx.case(bytes(cfg) + stream, nontrivial=True, n=0)
        if i < 2:
            ctx.sample({"cfg": list(cfg), "items": [list(d) for d in desc], "stream": stream[:200], "stream_len": len(stream)})
    for s in states:
        ctx.seen("state_at_chunk_boundary(hunt,pending_escape,partial)", s)


def replay(case: dict, ctx) -> None:
    if case.get("header_only"):
        header_only_probe(tuple(case["cfg"]), case["stream"], tuple(case["split"]), ctx)
        return
    check_stream(tuple(case["cfg"]), case["stream"], tuple(case["split"]), ctx)


def finalize(agg: dict, tier: str):
    c = agg["counters"]
    reasons = []
    for cfg in ("00", "01", "10", "11"):
        if c.get(f"cfg{cfg}_valid", 0) == 0 or c.get(f"cfg{cfg}_invalid", 0) == 0:
            reasons.append(f"configuration stuffing/abort={cfg}: no valid or no invalid frame observed - the validity oracle was not exercised two-sidedly")
    return {}, reasons
