"""C09 - Kamstrup lists decode to the transmitted values with the documented scaling.

Same monitor shape as C07/C08. Currents are compared within 2^-50 relative of
register/100 (register/1000 for current-transformer meters): the statement
says 'equal to register/100', the code computes register * 10**-2, which is one
ulp away for some registers - a float artefact, not a wrong value.
"""
from __future__ import annotations

from vf.gen import dlms_gen
from vf.props import dlms_common

ID = "C09"
LEVEL = "exploration"
RULE = (
    "list = list-version string + OBIS-tagged elements of the documented layouts (10-second list 1-/3-phase, hourly list 1-/3-phase/1-quadrant, Swedish list), "
    "0..9 null octets after any element (60% of lists), meter type strings beginning 685 (CT) / 684 / 686 / 68 / 585 / 6851 / empty, registers over the full range "
    "of their type with boundaries, APDU date-time tagged or untagged. expected: current ~ reg/100 (reg/1000 for CT meters), energy == reg*10, voltage/power == reg, "
    "text verbatim, frame clock = APDU date-time. evaluations = lists decoded; distinct non-trivial = distinct body digests with a non-zero current or energy register."
)
ASSUMPTIONS = ["encoder vf/ref/cosem_enc.py and name table vf/ref/names.py are the specification side", "currents compared with 2^-50 relative tolerance (see module docstring)"]
WATCHDOG_S = {"quick": 900, "thorough": 7200}
N = {"quick": 600, "thorough": 9500}


def plan(tier, seed):
    return [{"n": N[tier]} for _ in range(16)] + [{"kind": "threads", "rounds": 3 if tier == "quick" else 40}]


def run(shard, ctx):
    if shard.get("kind") == "threads":
        for _ in range(shard["rounds"]):
            dlms_common.run_threads(ID, dlms_gen.kamstrup_case, ctx)
        return
    rng = ctx.rng(ID)
    for i in range(shard["n"]):
        case = dlms_gen.kamstrup_case(rng)
        ct = ":ct" if "ct_meter" in case.tags else ""
        dlms_common.check_case(ID, case, ctx, extra_tag=ct)
        ctx.case(case.body, "nonzero_current" in case.tags or "nonzero_energy" in case.tags)
        ctx.count(f"layout_{case.layout}")
        for t in set(case.tags):
            ctx.count(f"tag_{t}")
        if i < 2:
            ctx.sample({"layout": case.layout, "tags": sorted(set(case.tags)), "body": case.body[:120], "expected": {k: [v[0], str(v[1])[:40]] for k, v in list(case.expect_body.items())[:8]}})


def replay(case, ctx):
    dlms_common.replay_case(ID, case, ctx)


def finalize(agg, tier):
    c = agg["counters"]
    reasons = [f"workload never produced '{k}'" for k in ("tag_ct_meter", "tag_non_ct_meter", "tag_null_padding", "tag_nonzero_current", "tag_nonzero_energy",
                                                            "tag_apdu_tagged", "tag_apdu_untagged", "layout_list2_3ph", "layout_se_list")
               if c.get(k, 0) == 0]
    return {}, reasons
