"""C09 - Kamstrup lists decode to the transmitted values with the documented scaling.

Same monitor shape as C07/C08. Currents are compared within 2^-50 relative of
register/100 (register/1000 for current-transformer meters): the statement
says 'equal to register/100', the code computes register * 10**-2, which is one
ulp away for some registers - a float artefact, not a wrong value.
"""
from __future__ import annotations

from vf.gen import dlms_gen
from vf.props import dlms_common

ID = "C09"
LEVEL = "exploration"
RULE = (
    "list = list-version string + OBIS-tagged elements of the documented layouts (10-second list 1-/3-phase, hourly list 1-/3-phase/1-quadrant, Swedish list), "
    "0..9 null octets after any element (60% of lists), meter type strings beginning 685 (CT) / 684 / 686 / 68 / 585 / 6851 / empty, registers over the full range "
    "of their type with boundaries, APDU date-time tagged or untagged. expected: current ~ reg/100 (reg/1000 for CT meters), energy == reg*10, voltage/power == reg, "
    "text verbatim, frame clock = APDU date-time. evaluations = lists decoded; distinct non-trivial = distinct body digests with a non-zero current or energy register."
)
ASSUMPTIONS = ["encoder vf/ref/cosem_enc.py and name table vf/ref/names.py are the specification side", "currents compared with 2^-50 relative tolerance (see module docstring)"]
WATCHDOG_S = {"quick": 900, "thorough": 7200}
N = {"quick": 600, "thorough": 9500}


def plan(tier, seed):
    return [{"n": N[tier]} for _ in range(16)] + [{"kind": "threads", "rounds": 12 if tier == "quick" else 90}] + [{"n": N[tier] // 2, "python_flags": ["-bb"]}]


def crc32_collision(ctx) -> None:
    """Two different Kamstrup lists of equal length whose CRC-32 (and Adler-32 is covered by chance) coincide, decoded one after
    the other, body and frame: each must come back with its own values (a result memo keyed by a digest would return the first)."""
    import struct
    import zlib

    from han import kamstrup

    from vf.ref import cosem_enc as ce

    rng = ctx.rng("crc32")
    pre = ce.kamstrup_body("Kamstrup_V0001", [((1, 1, 0, 0, 5, 255), ce.visible_string("5706567000000000")), ((1, 1, 96, 1, 1, 255), ce.visible_string("6841121BN243101040"))])
    pre = bytes((2, 9)) + pre[2:] + ce.obis_field((1, 1, 1, 7, 0, 255)) + b"\x06"
    mid = ce.obis_field((1, 1, 31, 7, 0, 255)) + b"\x06"
    seen = {}
    pair = None
    base = zlib.crc32(pre)
    for n in range(1 << 19):
        a, b = rng.getrandbits(32), rng.getrandbits(32)
        tail = struct.pack(">I", a) + mid + struct.pack(">I", b)
        c = zlib.crc32(tail, base)
        if c in seen and seen[c] != (a, b):
            pair = (seen[c], (a, b))
            break
        seen[c] = (a, b)
    if pair is None:
        ctx.count("crc32_collision_search_failed")
        return
    ctx.count("crc32_collision_pairs")
    dt12 = ce.datetime12(2026, 9, 28, 1, 12, 0, 0, None, None, 0)
    for (a, b) in pair:
        body = pre + struct.pack(">I", a) + mid + struct.pack(">I", b)
        for form, fn, data in (("body", kamstrup.decode_notification_body, body), ("frame", kamstrup.decode_frame_content, ce.apdu(body, dt12, True, b"\x00\x00\x00\x00"))):
            got = fn(data)
            if got.get("active_power_import") != a or abs(got.get("current_l1", -1) - b / 100) > 1e-6 * max(1, b):
                ctx.violation(f"C09:{form}:value-of-another-list", f"list with P14={a}, IL1={b} decoded to P14={got.get('active_power_import')}, IL1={got.get('current_l1')} (the previous list had the same length and CRC-32)",
                              {"vendor": "kamstrup", "layout": "crc32-collision", "body": body, "frame": ce.apdu(body, dt12, True, b"\x00\x00\x00\x00"), "expect_body": {"active_power_import": ["int", a]}, "expect_frame": {"active_power_import": ["int", a]}})
    ctx.case("crc32collision", True, 4)


def run(shard, ctx):
    if shard.get("kind") == "threads":
        dlms_common.digest_twins(ID, "kamstrup", ctx)
        if shard.get("rounds"):
            crc32_collision(ctx)
        per_meter = [lambda r: dlms_gen.kamstrup_case(r, ct=True), lambda r: dlms_gen.kamstrup_case(r, ct=False)]
        for k in range(shard["rounds"]):
            dlms_common.run_threads(ID, dlms_gen.kamstrup_case if k % 3 == 0 else per_meter, ctx, n_threads=2 if k % 3 == 1 else 4, n_cases=120 if k % 3 == 1 else 60)
        return
    rng = ctx.rng(ID)
    for i in range(shard["n"]):
        case = dlms_gen.kamstrup_case(rng)
        ct = ":ct" if "ct_meter" in case.tags else ""
        dlms_common.check_case(ID, case, ctx, extra_tag=ct)
        ctx.case(case.body, "nonzero_current" in case.tags or "nonzero_energy" in case.tags)
        ctx.count(f"layout_{case.layout}")
        for t in set(case.tags):
            ctx.count(f"tag_{t}")
        if i < 2:
            ctx.sample({"layout": case.layout, "tags": sorted(set(case.tags)), "body": case.body[:120], "expected": {k: [v[0], str(v[1])[:40]] for k, v in list(case.expect_body.items())[:8]}})


def replay(case, ctx):
    dlms_common.replay_case(ID, case, ctx)


def finalize(agg, tier):
    c = agg["counters"]
    reasons = [f"workload never produced '{k}'" for k in ("tag_ct_meter", "tag_non_ct_meter", "tag_null_padding", "tag_nonzero_current", "tag_nonzero_energy",
                                                            "tag_apdu_tagged", "tag_apdu_untagged", "layout_list2_3ph", "layout_se_list")
               if c.get(k, 0) == 0]
    return {}, reasons
