"""C17 - ConnectionManager: one connection at a time, and close() really stops it.

Harness: vf/mon/vloop.py (virtual-time loop, fake factory/transport, event log).
Fault enumeration: every outcome word over {ok, fail, slow_ok, slow_fail} up to a
length, two lifetime modes, and close() injected at EVERY event-loop iteration
of the run - as the first callback, as the last callback, and (thorough) at every
position of that iteration's ready queue, i.e. every interleaving of close()
with the manager's own callbacks in that scenario. A trace checker decides the
invariants over the recorded event log.
"""
from __future__ import annotations

import itertools

from vf.mon import vloop
from vf.ref import backoff_ref

ID = "C17"
LEVEL = "fault_enumeration"
OUTCOMES = ("ok", "fail", "slow_ok", "slow_fail")
RULE = (
    "scenario = word over {ok, fail, slow_ok (2.5 s), slow_fail} of length 1..L for the first attempts (later attempts succeed and stay up) x lifetime mode {stays up, lost after 3 s / 7 s alternating}; "
    "baseline run without close(), then one run per (iteration k of the baseline, position) with close() injected there: position first / last (quick) or every index of the ready queue (thorough), and one run per gap between consecutive event times with close() at the midpoint (inside back-off sleeps, slow attempts, idle connections). "
    "L = 4 quick, 5 thorough. plus reconnect-storm runs of 50 and 3000 cycles for the task bound, runs of 6..14 consecutive failures (back-off at its cap) and connections whose transport raises from close() after the loss. trace oracles: I1 <= 1 live connection; I2 no attempt while a connection is live or another attempt pending; "
    "I3 every failure/loss followed by an attempt within max(back-off, breaker sleep)+0.25 s while not closed; I4 pending tasks <= 10 and equal for 50 and 3000 cycles; "
    "I5 after close(): connect_loop returns at the same virtual time (+0.25 s slack) within 50 iterations, no attempt_start afterwards during 200 virtual seconds, every obtained transport closed or lost. "
    "evaluations = runs; distinct non-trivial = distinct (scenario, injection iteration, position) triples with close() landing while the manager was active (all injected runs)."
)
ASSUMPTIONS = [
    "asyncio semantics are those of CPython 3.12's BaseEventLoop driven by a selector that never reports I/O; time advances only when all tasks are blocked",
    "the fake transport delivers connection_lost once via call_soon after close(), like selector transports",
    "'every interleaving' = every position of close() relative to the callbacks of the deterministic run of that scenario; other orders of the manager's own callbacks do not exist on a single-threaded loop",
]
WATCHDOG_S = {"quick": 900, "thorough": 7200}
EPS = 0.01
SLACK = 0.25  # scheduling slack granted to 'within' / 'at the same time' bounds (an implementation may poll)
AFTER = 200.0


def plan(tier, seed):
    L = 4 if tier == "quick" else 5
    shards = [{"kind": "enum", "L": L, "mod": 15, "rem": k, "all_positions": tier != "quick"} for k in range(15)]
    shards.append({"kind": "storm", "cycles": [50, 3000] if tier != "quick" else [50, 1500]})
    shards.append({"kind": "long"})
    return shards


def scenario_params(word, mode):
    lifetimes = []
    k = 0
    for o in word:
        if o.endswith("ok"):
            lifetimes.append(None if mode == "up" else (3.0 if k % 2 == 0 else 7.0))
            k += 1
        else:
            lifetimes.append(None)
    base = 60 + 8 * len(word) + sum(2 ** i for i in range(len(word) + 1))
    return lifetimes, float(base)


def judge(res, ctx, case, closed: bool) -> str | None:
    """Trace checker. Returns the park state in which close() landed (or None)."""
    ev = res["events"]
    if res["error"]:
        ctx.violation("C17:scenario-error", f"run ended with {res['error']}", case)
    live: set[int] = set()
    pending: set[int] = set()
    obtained: set[int] = set()
    ended: set[int] = set()
    n_fail = 0
    last_loss = None
    t_close = it_close = None
    park = None
    returned = None
    waiting = None  # (kind, time, deadline)
    last_t = 0.0
    for e in ev:
        t, it, kind = e[0], e[1], e[2]
        if waiting is not None and t > waiting[2] + SLACK and t_close is None and kind != "horizon":
            ctx.violation(f"C17:no-reconnect-after-{waiting[0]}", f"{waiting[0]} at t={waiting[1]}: no attempt until t={t} (deadline {waiting[2]})", case)
            waiting = None
        if kind == "attempt_start":
            if t_close is not None:
                ctx.violation("C17:close:attempt-after-close", f"attempt {e[3]} started at t={t} (iteration {it}) after close() at t={t_close} (iteration {it_close})", case)
            if live:
                ctx.violation("C17:attempt-while-connected", f"attempt {e[3]} started at t={t} while connection(s) {sorted(live)} live", case)
            if pending:
                ctx.violation("C17:attempt-while-attempt-pending", f"attempt {e[3]} started at t={t} while attempt(s) {sorted(pending)} still pending", case)
            pending.add(e[3])
            waiting = None
        elif kind == "attempt_ok":
            pending.discard(e[3])
            live.add(e[3])
            obtained.add(e[3])
            n_fail = 0
            if len(live) > 1:
                ctx.violation("C17:two-live-connections", f"connections {sorted(live)} live at t={t}", case)
        elif kind == "attempt_fail":
            pending.discard(e[3])
            n_fail += 1
            waiting = ("failure", t, t + max(backoff_ref.delay(n_fail, 60), 5))
        elif kind == "attempt_cancelled":
            pending.discard(e[3])
        elif kind in ("transport_close", "lost"):
            live.discard(e[3])
            ended.add(e[3])
            if kind == "lost":
                waiting = ("loss", t, t + max(backoff_ref.delay(n_fail, 60), 5))
                last_loss = t
        elif kind == "close_called":
            t_close, it_close = t, it
            waiting = None
            if live:
                park = "connected"
            elif pending:
                park = "pending_attempt"
            elif t > last_t + EPS:
                park = "backoff_sleep"
            else:
                park = "between_events"
        elif kind == "loop_returned":
            returned = (t, it)
        elif kind == "loop_restarted":
            # the application started connect_loop() again on the same manager: the first close() is judged now, then everything is allowed again
            if returned is None:
                ctx.violation("C17:close:loop-not-returned", f"close() at t={t_close}: connect_loop() had not returned when it was started again", case)
            elif t_close is not None and returned[0] > t_close + SLACK:
                ctx.violation("C17:close:loop-returned-late", f"close() at t={t_close} ({park}): connect_loop() returned at t={returned[0]}", case)
            t_close = it_close = returned = None
            pending.clear()
        elif kind == "horizon":
            if waiting is not None and t_close is None and t > waiting[2] + SLACK:
                ctx.violation(f"C17:no-reconnect-after-{waiting[0]}", f"{waiting[0]} at t={waiting[1]}: no attempt until the horizon t={t}", case)
        if kind not in ("horizon", "close_called", "loop_returned", "loop_cancelled_by_harness"):
            last_t = t
    if t_close is not None:
        if returned is None:
            ctx.violation("C17:close:loop-not-returned", f"close() at t={t_close}: connect_loop() had not returned {AFTER} virtual seconds later", case)
        else:
            if returned[0] > t_close + SLACK:
                ctx.violation("C17:close:loop-returned-late", f"close() at t={t_close} ({park}): connect_loop() returned at t={returned[0]} (waited out a back-off or pending attempt)", case)
            elif returned[1] - it_close > 50:
                ctx.violation("C17:close:loop-returned-late", f"close() at iteration {it_close}: connect_loop() returned {returned[1] - it_close} iterations later", case)
        leaked = sorted(obtained - ended)
        if leaked:
            ctx.violation("C17:close:transport-never-closed", f"close() at t={t_close} ({park}): transport(s) {leaked} obtained by the manager were never closed", case)
    elif returned is not None:
        ctx.violation("C17:loop-returned-without-close", f"connect_loop() returned at t={returned[0]} although close() was never called", case)
    if res["max_tasks"] > 10:
        ctx.violation("C17:task-growth", f"{res['max_tasks']} pending tasks during a scenario of {len(case.get('word', []))} scripted attempts", case)
    ctx.maximum("max_pending_tasks_in_enumerated_runs", res["max_tasks"])
    return park


def run_one(word, mode, close_at, ctx):
    lifetimes, base = scenario_params(word, mode)
    res = vloop.run_scenario(list(word), lifetimes, horizon=base + AFTER, close_at=close_at, default_outcome="ok", default_lifetime=None)
    case = {"word": list(word), "mode": mode, "close_at": list(close_at) if close_at else None}
    park = judge(res, ctx, case, close_at is not None)
    return res, park


def run_restart(ctx) -> None:
    """close() while connected / during a back-off, connect_loop() again on the same manager shortly afterwards - with transports that
    deliver connection_lost() only some time after close() - and a final close(): all invariants hold across the restart."""
    n = 0
    for word in (("ok",), ("ok", "ok"), ("fail", "ok"), ("ok", "fail", "ok"), ("slow_ok",), ("fail", "fail")):
        for mode in ("up", "lost"):
            lifetimes, base = scenario_params(word, mode)
            for t_close in (0.3, 1.2, 2.9, 3.1, 6.0):
                for restart_after in (0.0, 0.2, 2.0):
                    for close_delay in (0.0, 0.5, 3.0):
                        final = t_close + restart_after + 40.0
                        res = vloop.run_scenario(list(word), lifetimes, horizon=final + 5, close_at=("time", t_close), default_outcome="ok", default_lifetime=None,
                                                 restart_after=restart_after, close_delay=close_delay, second_close_at=final, after_close=AFTER)
                        case = {"word": list(word), "mode": mode, "lifetimes": lifetimes, "horizon": final + 5, "close_at": ["time", t_close], "restart_after": restart_after, "close_delay": close_delay, "second_close_at": final}
                        kinds = [e[2] for e in res["events"]]
                        if "loop_restarted" in kinds:
                            ctx.count("restart_scenarios_in_which_the_loop_ran_again")
                        judge(res, ctx, case, True)
                        ctx.case(repr(("restart", word, mode, t_close, restart_after, close_delay)), True)
                        n += 1
    ctx.count("restart_after_close_scenarios", n)


def run_long(shard, ctx) -> None:
    """Baseline-only scenarios beyond the enumerated length: runs of 6..14 consecutive failures before a success (the back-off
    reaches its cap), and connections whose transport raises from close() after the peer was lost."""
    for n_fail in range(6, 15):
        for tail in (["ok"], ["slow_ok"], ["ok", "fail", "ok"]):
            outcomes = ["fail"] * n_fail + tail
            lifetimes = [None] * n_fail + [7.0 if o.endswith("ok") else None for o in tail]
            horizon = sum(min(2 ** i, 60) for i in range(n_fail + 3)) + 200.0
            res = vloop.run_scenario(outcomes, lifetimes, horizon=horizon, default_outcome="ok", default_lifetime=None)
            case = {"word": outcomes, "mode": "long_failure_run", "close_at": None, "lifetimes": lifetimes, "horizon": horizon}
            judge(res, ctx, case, False)
            n_attempts = sum(1 for e in res["events"] if e[2] == "attempt_start")
            if n_attempts < len(outcomes) + 1:
                ctx.violation("C17:no-reconnect-after-failure", f"{n_fail} consecutive failures: only {n_attempts} attempts within {horizon:.0f} virtual seconds ({len(outcomes) + 1} expected)", case)
            ctx.count("long_failure_run_scenarios")
            ctx.case(f"long{n_fail}{tail}", True)
    # an attempt that ends in asyncio.CancelledError without the manager (or close()) having caused it is a failed attempt like any other
    for word in (["self_cancel", "ok"], ["ok", "slow_self_cancel", "ok"], ["fail", "self_cancel", "fail", "ok"]):
        lifetimes = [4.0 if o.endswith("ok") else None for o in word]
        res = vloop.run_scenario(word, lifetimes, horizon=300.0, default_outcome="ok", default_lifetime=None)
        case = {"word": word, "mode": "self_cancelled_attempt", "close_at": None, "lifetimes": lifetimes, "horizon": 300.0}
        judge(dict(res, events=[e for e in res["events"]]), ctx, case, False)
        n_attempts = sum(1 for e in res["events"] if e[2] == "attempt_start")
        if n_attempts < len(word) + 1:
            ctx.violation("C17:no-reconnect-after-failure", f"an attempt ended in CancelledError that the manager did not cause: only {n_attempts} attempts for {len(word)} scripted ones + the final one", case)
        ctx.count("self_cancelled_attempt_scenarios")
        ctx.case(f"selfcancel{word}", True)
    for word in (["ok", "ok", "ok"], ["ok", "fail", "ok", "ok"], ["slow_ok", "ok", "fail", "fail", "ok"]):
        lifetimes = [3.0 if o.endswith("ok") else None for o in word]
        res = vloop.run_scenario(word, lifetimes, horizon=300.0, default_outcome="ok", default_lifetime=None, close_raises_after_loss=True)
        case = {"word": word, "mode": "close_raises_after_loss", "close_at": None, "lifetimes": lifetimes, "horizon": 300.0}
        judge(res, ctx, case, False)
        n_raised = sum(1 for e in res["events"] if e[2] == "close_raised")
        n_attempts = sum(1 for e in res["events"] if e[2] == "attempt_start")
        ctx.count("close_raised_events", n_raised)
        if n_attempts < len(word) + 1:
            ctx.violation("C17:no-reconnect-after-loss", f"transport.close() raises after the peer was lost: only {n_attempts} attempts for {len(word)} scripted ones + the final one", case)
        ctx.count("close_raises_scenarios")
        ctx.case(f"closeraises{word}", True)


def run(shard, ctx):
    try:
        _run(shard, ctx)
    finally:
        vloop.report(ctx)


def _run(shard, ctx):
    if shard["kind"] == "long":
        run_long(shard, ctx)
        run_restart(ctx)
        return
    if shard["kind"] == "storm":
        finals = {}
        for cycles in shard["cycles"]:
            for pattern in ("ok_lost", "mixed"):
                if pattern == "ok_lost":
                    outcomes, lifetimes = ["ok"] * cycles, [0.5] * cycles
                else:
                    outcomes = [("ok", "fail", "slow_ok", "ok", "slow_fail")[i % 5] for i in range(cycles)]
                    lifetimes = [0.5 if o.endswith("ok") else None for o in outcomes]
                res = vloop.run_scenario(outcomes, lifetimes, horizon=cycles * 12.0 + 100, default_outcome="ok", default_lifetime=None)
                n_attempts = sum(1 for e in res["events"] if e[2] == "attempt_start")
                case = {"storm": pattern, "cycles": cycles}
                ctx.count("storm_attempts", n_attempts)
                ctx.maximum(f"storm_max_tasks[{pattern},{cycles}]", res["max_tasks"])
                finals[(pattern, cycles)] = res["max_tasks"]
                if n_attempts < cycles:
                    ctx.violation("C17:no-reconnect-after-loss", f"storm {pattern}: only {n_attempts} attempts for {cycles} scripted cycles", case)
                if res["max_tasks"] > 10:
                    ctx.violation("C17:task-growth", f"storm {pattern} of {cycles} cycles: {res['max_tasks']} pending tasks (bound 10)", case)
                judge(dict(res, max_tasks=0), ctx, case, False)
                ctx.case(f"storm{pattern}{cycles}", True)
                ctx.sample({"storm": pattern, "cycles": cycles, "attempts": n_attempts, "max_pending_tasks": res["max_tasks"], "tasks_at_horizon": res.get("tasks_at_horizon")})
        for pattern in ("ok_lost", "mixed"):
            a, b = (finals[(pattern, c)] for c in shard["cycles"])
            if b > a + 1:
                ctx.violation("C17:task-growth", f"storm {pattern}: max pending tasks {a} after {shard['cycles'][0]} cycles but {b} after {shard['cycles'][1]}", {"storm": pattern, "cycles": shard["cycles"][1]})
        return
    idx = 0
    first = True
    for length in range(1, shard["L"] + 1):
        for word in itertools.product(OUTCOMES, repeat=length):
            for mode in ("up", "lost"):
                idx += 1
                if idx % shard["mod"] != shard["rem"]:
                    continue
                base_res, _ = run_one(word, mode, None, ctx)
                ctx.case(None, False)
                ctx.count("baseline_scenarios")
                # iterations worth injecting into: up to shortly after the last manager event
                evs = [e for e in base_res["events"] if e[2] not in ("horizon", "loop_cancelled_by_harness")]
                last_it = max((e[1] for e in evs), default=1) + 3
                for k in range(1, last_it + 1):
                    positions = ["first", "last"]
                    res, park = run_one(word, mode, ("iteration", k, "first"), ctx)
                    ctx.count(f"close_landed_in_{park}")
                    ctx.case(f"{word}/{mode}/{k}/first", True)
                    if shard["all_positions"]:
                        rl = res["ready_len_at_injection"] or 0
                        positions = list(range(1, rl + 1))
                        ctx.maximum("max_ready_queue_len_at_injection", rl)
                    else:
                        positions = ["last"]
                    for pos in positions:
                        res2, park2 = run_one(word, mode, ("iteration", k, pos), ctx)
                        ctx.count(f"close_landed_in_{park2}")
                        ctx.case(f"{word}/{mode}/{k}/{pos}", True)
                    if first and k == 6:
                        first = False
                        ctx.sample({"word": list(word), "mode": mode, "close_at": ["iteration", k, "first"], "park_state": park, "events": [list(e) for e in res["events"][:16]]})
                # close() between events (inside back-off sleeps, slow attempts, idle connections): the midpoint of every gap
                times = sorted({e[0] for e in evs})
                for a, b in zip(times, times[1:] + [times[-1] + 4.0] if times else []):
                    if b - a > 0.2:
                        res3, park3 = run_one(word, mode, ("time", round((a + b) / 2, 3)), ctx)
                        ctx.count(f"close_landed_in_{park3}")
                        ctx.count("time_based_injections")
                        ctx.case(f"{word}/{mode}/t{(a + b) / 2:.3f}", True)


def replay(case, ctx):
    if case.get("mode") in ("long_failure_run", "close_raises_after_loss", "self_cancelled_attempt"):
        res = vloop.run_scenario(case["word"], case["lifetimes"], horizon=case["horizon"], default_outcome="ok", default_lifetime=None,
                                 close_raises_after_loss=case["mode"] == "close_raises_after_loss")
        judge(res, ctx, case, False)
        if sum(1 for e in res["events"] if e[2] == "attempt_start") < len(case["word"]) + 1:
            ctx.violation("C17:no-reconnect-after-failure" if case["mode"] == "long_failure_run" else "C17:no-reconnect-after-loss", "fewer attempts than scripted", case)
        return
    if "storm" in case:
        run({"kind": "storm", "cycles": [50, case["cycles"]]}, ctx)
        return
    ca = case.get("close_at")
    if "restart_after" in case:
        res = vloop.run_scenario(list(case["word"]), case["lifetimes"], horizon=case["horizon"], close_at=tuple(ca), default_outcome="ok", default_lifetime=None,
                                 restart_after=case["restart_after"], close_delay=case["close_delay"], second_close_at=case["second_close_at"], after_close=AFTER)
        judge(res, ctx, case, True)
        return
    run_one(tuple(case["word"]), case["mode"], tuple(ca) if ca else None, ctx)


def finalize(agg, tier):
    c = agg["counters"]
    reasons = [f"close() never landed in park state '{p}'" for p in ("connected", "pending_attempt", "backoff_sleep", "between_events") if c.get(f"close_landed_in_{p}", 0) == 0]
    L = 4 if tier == "quick" else 5
    want = 2 * sum(4 ** k for k in range(1, L + 1))
    if c.get("baseline_scenarios", 0) != want:
        reasons.append(f"scenario enumeration incomplete: {c.get('baseline_scenarios', 0)} of {want}")
    for k in ("long_failure_run_scenarios", "close_raised_events"):
        if c.get(k, 0) == 0:
            reasons.append(f"monitor never observed '{k}'")
    if c.get("storm_attempts", 0) == 0:
        reasons.append("reconnect-storm runs did not execute")
    return {"exhaustive": not reasons, "exhaustive_scope": f"all outcome words up to length {L} x 2 lifetime modes x close() at every iteration x {'every ready-queue position' if tier != 'quick' else 'first/last position'}"}, reasons
