"""C13 - Protocols forward exactly the selected reader's messages, payloads only if valid.

Monitor: the asyncio.Queue handed to the protocol is the observation point;
the reference is a 15-line model of the selection rule run over *shadow*
readers (fresh instances of the same reader classes fed the same chunks), and
for clean streams additionally the generator's own list of sent messages.
Thorough tier adds a real transport (socketpair + tcp connection factory) where
the chunks actually delivered to data_received() are recorded at the boundary.
"""
from __future__ import annotations

import asyncio

from vf.gen import hdlc_gen, p1_gen, splits
from vf.mon import clock, hdlc_mon, p1_mon, resync, transports
from vf.props import c01 as c01mod
from vf.props import c02 as c02mod
from vf.ref import p1_ref

ID = "C13"
LEVEL = "exploration"
RULE = (
    "history = byte stream (clean HDLC in C02's domain / clean P1 / corrupted frames / noise-prefixed / mixed / one pre-selection call of more than 8 KiB with the selecting message late) x splitting into data_received() calls "
    "x candidate list ([HDLC cfg], [P1], [HDLC,P1], [P1,HDLC], two HDLC readers with opposite stuffing settings in both orders) x protocol class (payload, message). oracle: queue contents == model(selection rule over shadow readers); "
    "clean streams: queue == non-empty payloads of the sent messages; long-lived protocol objects (12 000 / 60 000 messages after a selection in which an earlier candidate returned an invalid message): every payload arrives. evaluations = histories executed; distinct non-trivial = distinct (class, candidates, stream, splitting) "
    "digests in which a reader was selected (>= 1 item reached the queue or the model expected one)."
)
ASSUMPTIONS = [
    "the readers themselves are deterministic functions of the chunk sequence (shadow instances reproduce the protocol's own readers); their correctness is C01-C06",
    "a history in which data_received raises is cut at that call (C14 decides on the exception); the prefix must still agree",
]
WATCHDOG_S = {"quick": 900, "thorough": 7200}
N_CASES = {"quick": 260, "thorough": 9000}

_loop = None
_protocols = 0


def _ensure_loop():
    global _loop
    if _loop is None:
        _loop = asyncio.new_event_loop()
        asyncio.set_event_loop(_loop)
    return _loop


def plan(tier: str, seed: int) -> list[dict]:
    shards = [{"kind": "gen", "n": N_CASES[tier]} for _ in range(15)]
    shards.append({"kind": "socket", "n": 12 if tier == "quick" else 400})
    shards.append({"kind": "long_lived", "n": 2, "messages": 12500 if tier == "quick" else 60000})
    return shards


CAND_KINDS = ("H", "P", "HP", "PH", "Hh", "hH")  # h = HDLC reader with the opposite stuffing setting


def make_candidates(kind: str, cfg):
    out = []
    for ch in kind:
        if ch == "H":
            out.append(hdlc_mon.new_reader(cfg))
        elif ch == "h":
            out.append(hdlc_mon.new_reader((not cfg[0], cfg[1])))
        else:
            out.append(p1_mon.new_reader())
    return out


def model(chunks, cand_kind, cfg, payload_mode: bool):
    """Expected queue contents by the statement's selection rule."""
    readers = make_candidates(cand_kind, cfg)
    selected = None
    out = []

    def forward(msgs):
        for m in msgs:
            if payload_mode:
                if m.is_valid and m.payload:
                    out.append(bytes(m.payload))
            else:
                out.append((type(m).__name__, bytes(m.as_bytes)))

    for ch in chunks:
        if selected is not None:
            forward(selected.read(ch))
            continue
        for r in readers:
            msgs = r.read(ch)
            if any(m.is_valid for m in msgs):
                selected = r
                forward(msgs)
                break
    return out, (type(selected).__name__ if selected is not None else None)


def drain(q):
    items = []
    while not q.empty():
        items.append(q.get_nowait())
    return items


def run_protocol(chunks, cand_kind, cfg, payload_mode: bool, ctx, case):
    from han import meter_connection

    _ensure_loop()
    q: asyncio.Queue = asyncio.Queue()
    cls = meter_connection.SmartMeterMessagePayloadProtocol if payload_mode else meter_connection.SmartMeterMessageProtocol
    global _protocols
    cands = make_candidates(cand_kind, cfg)
    own = list(cands)
    proto = cls(q, cands)
    cleared = _protocols % 4 == 1
    if cleared:
        cands.clear()  # the list belongs to the caller, who may reuse it for something else once the protocol exists
    # the protocol object's life as asyncio drives it: connection_made(transport) first - successive objects are reconnects to the
    # same endpoint - and connection_lost() at the end; the endpoint kinds rotate (vf/mon/transports.py)
    _protocols += 1
    tkind = transports.kind_for(_protocols)
    tr = None
    if tkind != "none":
        tr = transports.PlainTransport(tkind)
        try:
            proto.connection_made(tr)
            ctx.count("protocols_given_a_transport_first")
            ctx.seen("transport_kinds", tkind)
        except Exception as ex:
            ctx.violation(f"C13:connection_made-raised:{tkind}:{p1_mon.where(ex)}", f"connection_made() raised {ex!r:.160} for a {tkind} transport: the connection is dropped, nothing is forwarded", case)
            return [], []
    fed = []
    for ch in chunks:
        clock.tick()
        try:
            proto.data_received(ch)
        except Exception as ex:
            ctx.count("data_received_raised(decided by C14)")
            ctx.seen("exceptions(decided by C14)", p1_mon.where(ex))
            break
        fed.append(ch)
    if not cleared and [id(c) for c in cands] != [id(c) for c in own]:
        ctx.violation("C13:callers-candidate-list-modified", f"the list of candidate readers handed to the protocol was changed by it ({len(own)} readers before, {len(cands)} after)", case)
    items = drain(q)
    if tr is not None and _protocols % 3 == 0:
        try:
            proto.connection_lost(None if _protocols % 2 else ConnectionResetError("peer went away"))
        except Exception as ex:
            ctx.seen("exceptions(decided by C14)", p1_mon.where(ex))
        items += drain(q)
    if payload_mode:
        got = [bytes(x) if isinstance(x, (bytes, bytearray)) else ("non-bytes", repr(x)) for x in items]
    else:
        got = [(type(m).__name__, bytes(m.as_bytes)) for m in items]
    return got, fed


def classify(got, want) -> str:
    if len(got) < len(want):
        return "missing"
    if len(got) > len(want):
        return "extra"
    if sorted(map(repr, got)) == sorted(map(repr, want)):
        return "reordered"
    return "content"


def check_history(stream, spec, cand_kind, cfg, payload_mode, clean_expect, ctx, chunks=None) -> bool:
    chunks = chunks if chunks is not None else splits.chunks(stream, spec)
    case = {"stream": stream, "split": list(spec), "cands": cand_kind, "cfg": list(cfg), "payload_mode": payload_mode, "clean_expect": clean_expect}
    got, fed = run_protocol(chunks, cand_kind, cfg, payload_mode, ctx, case)
    want, selected = model(fed, cand_kind, cfg, payload_mode)
    mode = "payload" if payload_mode else "message"
    if got != want:
        ctx.violation(
            f"C13:queue-differs-from-model:{mode}:{classify(got, want)}",
            f"candidates {cand_kind} cfg {cfg}: queue has {len(got)} items, model (selected {selected}) expects {len(want)}; first queue items {[repr(g)[:40] for g in got[:2]]}",
            case,
        )
    if clean_expect is not None and len(fed) == len(chunks) and payload_mode:
        if got != clean_expect:
            ctx.violation(
                f"C13:clean-stream-payloads-differ:{classify(got, clean_expect)}",
                f"candidates {cand_kind} cfg {cfg}: clean stream with {len(clean_expect)} non-empty payloads, queue has {len(got)}",
                case,
            )
        ctx.count("clean_streams_compared_with_sent_list")
    ctx.count(f"selected_{selected}")
    ctx.count("queue_items", len(got))
    if not payload_mode and any(True for _ in got):
        ctx.count("message_mode_items", len(got))
    return bool(got or want)


def make_case(rng):
    cfg = hdlc_gen.CONFIGS[rng.randrange(4)]
    r = rng.random()
    clean = None
    if r < 0.30:
        stream, sent = c02mod.make_stream(rng, cfg)
        clean = [d["info"] for _f, d in sent if d["info"]]
        kind = "clean_hdlc"
        cand = rng.choice(("H", "HP", "PH", "Hh", "hH"))
        if cand in ("Hh", "hH"):
            clean = None  # which of the two HDLC readers is selected depends on the content: only the model is consulted
    elif r < 0.55:
        ids = p1_gen.IdSource(rng)
        # some readouts carry no data at all (empty payload: must not reach the payload queue)
        sent = [p1_gen.strict_readout(rng, ids if rng.random() < 0.8 else None, rng.choice((0, 0, 1, 3, 10)), checksum=rng.choice(("correct", None))) for _ in range(rng.randint(1, 8))]
        stream = b"".join(sent)
        clean = [p for p in (p1_ref.split_readout(s)[1] for s in sent) if p]
        kind = "clean_p1"
        cand = rng.choice(("P", "HP", "PH"))
        if "~" in stream.decode("ascii"):
            clean = clean if cand == "P" else None  # a '~' is an HDLC flag: only the model is consulted then
    elif r < 0.60:
        # one big pre-selection call (> 8 KiB): many invalid messages / messages of the other kind first, the selecting message late
        parts = []
        first = rng.choice(("invalid_frames", "p1_readouts", "noise"))
        while sum(map(len, parts)) < rng.choice((8300, 9000, 12000, 20000)):
            if first == "invalid_frames":
                fr, _ = hdlc_gen.good_frame(rng, None, max_info=30, want_info=True)
                bad, _k = hdlc_gen.corrupt(rng, fr)
                parts.append(b"\x7e" + hdlc_gen.on_wire(bad, cfg[0]) + b"\x7e")
            elif first == "p1_readouts":
                ro = p1_gen.strict_readout(rng, None, rng.choice((2, 8, 20)))
                parts.append(ro if rng.random() < 0.5 else p1_gen.with_checksum_text(ro, b"0000"))
            else:
                parts.append(hdlc_gen.noise(rng, 200, "flagfree")[0])
        suffix, _ = resync.hdlc_suffix(rng, cfg, rng.randint(2, 5), 40)
        stream = b"".join(parts) + suffix
        kind = "big_single_call"
        cand = rng.choice(CAND_KINDS)
    elif r < 0.64:
        # a reader is selected, then the line carries tens of KiB without any message (the meter is silent, something else talks),
        # then messages of the *other* kind, then the selected reader's own again: the selection stands
        first_kind = rng.choice(("hdlc", "p1"))
        own = (resync.hdlc_suffix(rng, cfg, 2, 40)[0] if first_kind == "hdlc" else resync.p1_suffix(rng, 2)[0])
        other = (resync.p1_suffix(rng, 2)[0] if first_kind == "hdlc" else resync.hdlc_suffix(rng, cfg, 2, 40)[0])
        n_silence = rng.choice((20000, 66000, 70000, 140000))
        if first_kind == "p1":
            silence = bytes(rng.choice(b"abcdefghijklmnopqrstuvwxyz0123456789 \r\n") for _ in range(2000)) * (n_silence // 2000)
        else:
            silence = b"\x7e\xa0\x7e" + bytes(rng.choice(b"\x00\x01\x55\xaa\x10") for _ in range(2000)) * (n_silence // 2000)
        stream = own + silence + other + own
        kind = "long_silence_after_selection"
        cand = rng.choice(("HP", "PH"))
    elif r < 0.75:
        stream, _ = c01mod.make_stream(rng, cfg)
        kind = "corrupt_hdlc"
        cand = rng.choice(CAND_KINDS)
    elif r < 0.9:
        # noise, then clean messages of either kind
        nz = (p1_gen.noise(rng, rng.randint(1, 80))[0] if rng.random() < 0.5 else hdlc_gen.noise(rng, rng.randint(1, 80))[0])
        if rng.random() < 0.5:
            suffix, _ = resync.hdlc_suffix(rng, cfg, rng.randint(2, 6), 40)
        else:
            suffix, _ = resync.p1_suffix(rng, rng.randint(2, 5))
        stream = nz + suffix
        kind = "noise_prefixed"
        cand = rng.choice(CAND_KINDS)
    else:
        # mixed: P1 readouts with flipped bits / wrong checksums, and HDLC frames, interleaved
        parts = []
        for _ in range(rng.randint(2, 6)):
            if rng.random() < 0.5:
                ro = p1_gen.strict_readout(rng, None, rng.choice((0, 0, 1, 2, 5)))
                if rng.random() < 0.2 and ro.rfind(b"!") - ro.find(b"\n") > 3:
                    # a data byte 0x80 (the one non-ASCII value the validity check lets through), checksum recomputed or absent
                    bb = bytearray(p1_gen.with_checksum_text(ro, b""))
                    lf = bb.find(b"\n")
                    bb[rng.randrange(lf + 1, bb.rfind(b"!"))] = 0x80
                    ro = bytes(bb) if rng.random() < 0.5 else p1_gen.with_checksum_text(bytes(bb), b"%04X" % p1_gen.correct_checksum(bytes(bb)))
                elif rng.random() < 0.5:
                    ro = p1_gen.with_checksum_text(ro, rng.choice((b"0000", b"FFFF", b"12G4", b"")))
                parts.append(ro)
            else:
                fr, _ = hdlc_gen.good_frame(rng, None, max_info=30)
                if rng.random() < 0.4:
                    fr, _ = hdlc_gen.corrupt(rng, fr)
                parts.append(b"\x7e" + hdlc_gen.on_wire(fr, cfg[0]) + b"\x7e")
        stream = b"".join(parts)
        kind = "mixed"
        cand = rng.choice(CAND_KINDS)
    return cfg, stream, clean, kind, cand


async def _socket_history(stream, write_chunks, cand_kind, cfg, payload_mode):
    import socket

    from han import tcp_connection_factory as tcf

    loop = asyncio.get_running_loop()
    a, b = socket.socketpair()
    q: asyncio.Queue = asyncio.Queue()
    factory = tcf.create_tcp_message_payload_connection if payload_mode else tcf.create_tcp_message_connection
    transport, proto = await factory(q, loop, None if cand_kind is None else make_candidates(cand_kind, cfg), sock=a)
    delivered = []
    real = proto.data_received

    def recording(data):  # boundary recorder: the chunks the transport really delivered
        delivered.append(bytes(data))
        real(data)

    proto.data_received = recording
    for ch in write_chunks:
        b.sendall(ch)
        await asyncio.sleep(0)
        await asyncio.sleep(0)
    b.close()
    await asyncio.wait_for(proto.done, 10)
    transport.close()
    return drain(q), delivered


def run_socket(shard, ctx) -> None:
    rng = ctx.rng("c13", "socket")
    pending_default = None
    for i in range(shard["n"]):
        cfg, stream, clean, kind, cand = make_case(rng)
        payload_mode = rng.random() < 0.6
        use_default = False
        if i % 3 != 0 or pending_default is not None:
            # the factories' own default candidates (readers=None: an HDLC reader without stuffing plus a P1 reader, fresh for every
            # connection): one connection that is cut off in the middle of a message, then another one in the same process
            cfg, cand, use_default = (False, True), "HP", True
            if pending_default is None:
                stream, sent = c02mod.make_stream(rng, cfg)
                stream = stream[: max(8, len(stream) - rng.randint(3, 40))]
                clean = None
                pending_default = True
            else:
                stream, sent = c02mod.make_stream(rng, cfg)
                clean = [d["info"] for _f, d in sent if d["info"]]
                pending_default = None
            ctx.count("socket_histories_with_the_factory_default_readers")
        if len(stream) > 60000:
            stream = stream[:60000]
            clean = None
        spec = splits.random_spec(rng, len(stream))
        loop = asyncio.new_event_loop()
        try:
            asyncio.set_event_loop(loop)
            items, delivered = loop.run_until_complete(_socket_history(stream, splits.chunks(stream, spec), None if use_default else cand, cfg, payload_mode))
        except Exception as ex:
            ctx.count("socket_history_failed(harness)")
            ctx.seen("socket_failures", repr(ex)[:120])
            continue
        finally:
            loop.close()
            asyncio.set_event_loop(None)
            global _loop
            _loop = None
        if b"".join(delivered) != stream:
            ctx.note_inconclusive("socket transport did not deliver the written stream")
            continue
        got = [bytes(x) for x in items] if payload_mode else [(type(m).__name__, bytes(m.as_bytes)) for m in items]
        want, selected = model(delivered, cand, cfg, payload_mode)
        ctx.count("socket_histories")
        ctx.count("socket_chunks_delivered", len(delivered))
        case = {"stream": stream, "split": ["cuts", _cuts_of(delivered)], "cands": cand, "cfg": list(cfg), "payload_mode": payload_mode, "clean_expect": None}
        if got != want:
            ctx.violation(f"C13:queue-differs-from-model:{'payload' if payload_mode else 'message'}:{classify(got, want)}",
                          f"real transport: queue {len(got)} items, model {len(want)}", case)
        if clean is not None and payload_mode and got != clean:
            ctx.violation(f"C13:clean-stream-payloads-differ:{classify(got, clean)}", f"real transport: {len(clean)} payloads sent, queue has {len(got)}", case)
        ctx.case(b"sock" + cand.encode() + bytes(cfg) + stream + repr(_cuts_of(delivered)).encode(), bool(got or want))


def _cuts_of(delivered):
    cuts, pos = [], 0
    for d in delivered[:-1]:
        pos += len(d)
        cuts.append(pos)
    return cuts


def run_long_lived(shard, ctx) -> None:
    """One protocol object that lives through tens of thousands of messages after a selection in which an earlier
    candidate returned an invalid message: every payload sent must still arrive (nothing may go stale)."""
    from han import meter_connection

    rng = ctx.rng("c13", "long")
    _ensure_loop()
    for variant in range(shard["n"]):
        q: asyncio.Queue = asyncio.Queue()
        if variant % 2 == 0:
            cands = [hdlc_mon.new_reader((True, False)), hdlc_mon.new_reader((False, False))]
            cfg = (False, False)
        else:
            cands = [hdlc_mon.new_reader((False, True)), p1_mon.new_reader()]
            cfg = (False, True)
        proto = meter_connection.SmartMeterMessagePayloadProtocol(q, cands)
        ids = hdlc_gen.IdSource(rng)
        sent = []
        got = []
        # first call: a frame that the first candidate sees as invalid (contains 7D) / a corrupted frame plus a good one
        fr0, d0 = hdlc_gen.good_frame(rng, ids, max_info=30, want_info=True)
        if variant % 2 == 0:
            while b"\x7d" not in fr0 or not hdlc_gen.in_plain_domain(fr0, False):
                fr0, d0 = hdlc_gen.good_frame(rng, ids, max_info=30, want_info=True, dense=True)
            first = b"\x7e" + fr0 + b"\x7e"
            sent.append(d0["info"])
        else:
            bad, _ = hdlc_gen.corrupt(rng, fr0)
            ro = p1_gen.strict_readout(rng, None, 3)
            first = b"\x7e" + bad + b"\x7e" + ro
            from vf.ref import p1_ref as _p

            sent.append(_p.split_readout(ro)[1])
        proto.data_received(first)
        while not q.empty():
            got.append(q.get_nowait())
        n_msgs = shard["messages"]
        for k in range(n_msgs):
            if variant % 2 == 0:
                while True:
                    fr, d = hdlc_gen.good_frame(rng, ids, max_info=24, want_info=True)
                    if hdlc_gen.in_plain_domain(fr, False):
                        break
                data = fr + b"\x7e"
                sent.append(d["info"])
            else:
                ro = p1_gen.strict_readout(rng, None, 1)
                data = ro
                sent.append(_p.split_readout(ro)[1])
            try:
                proto.data_received(data)
            except Exception as ex:
                ctx.count("data_received_raised(decided by C14)")
                break
            if variant % 2 == 1 or k == n_msgs - 1:
                # variant 0 lets the queue fill up (a consumer that is busy for a while): nothing may be dropped from it
                while not q.empty():
                    got.append(bytes(q.get_nowait()))
        ctx.count("long_lived_messages", len(sent))
        ctx.case(f"long{variant}{ctx.seed}", True, len(sent))
        if got != sent:
            first_bad = next((i for i, (g, w) in enumerate(zip(got, sent)) if g != w), min(len(got), len(sent)))
            ctx.violation(f"C13:long-lived-protocol:{classify(got, sent)}", f"{len(sent)} payloads sent through one protocol object, {len(got)} arrived; first difference at #{first_bad}",
                          {"long_lived": True, "variant": variant, "messages": n_msgs})


def run(shard: dict, ctx) -> None:
    if shard["kind"] == "socket":
        run_socket(shard, ctx)
        return
    if shard["kind"] == "long_lived":
        run_long_lived(shard, ctx)
        return
    rng = ctx.rng("c13")
    for i in range(shard["n"]):
        cfg, stream, clean, kind, cand = make_case(rng)
        ctx.count(f"stream_{kind}")
        import re as _re

        if _re.search(rb"/[^\n]*\n!", stream):
            ctx.count("streams_with_an_empty_payload_readout")
        ctx.count(f"cands_{cand}")
        specs = [("none",), ("bytewise",) if len(stream) < 3000 else ("fixed", 7, 3)] + [splits.random_spec(rng, len(stream), False) for _ in range(2)]
        for spec in specs:
            for payload_mode in (True, False):
                nt = check_history(stream, spec, cand, cfg, payload_mode, clean, ctx)
                ctx.case(repr((payload_mode, cand, cfg, spec)).encode() + stream, nt)
        if i < 2:
            ctx.sample({"kind": kind, "candidates": cand, "cfg": list(cfg), "stream": stream[:100], "stream_len": len(stream)})


def replay(case: dict, ctx) -> None:
    if case.get("long_lived"):
        run_long_lived({"n": case["variant"] + 1, "messages": case["messages"]}, ctx)
        return
    check_history(case["stream"], tuple(case["split"]), case["cands"], tuple(case["cfg"]), case["payload_mode"], case.get("clean_expect"), ctx)


def finalize(agg: dict, tier: str):
    c = agg["counters"]
    reasons = []
    for k in ("selected_HdlcFrameReader", "selected_ModeDReader", "selected_None", "clean_streams_compared_with_sent_list", "message_mode_items", "socket_histories", "streams_with_an_empty_payload_readout"):
        if c.get(k, 0) == 0:
            reasons.append(f"workload never produced '{k}'")
    return {}, reasons
