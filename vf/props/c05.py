"""C05 - P1: every readout on a clean stream is delivered once, however it is chunked.

Monitor: generator-side list of sent readouts (unique id in each) vs. the list
returned by ModeDReader.read() over the whole call sequence.
"""
from __future__ import annotations

from vf.gen import p1_gen, splits
from vf.mon import p1_mon
from vf.ref import p1_ref

ID = "C05"
LEVEL = "exploration"
RULE = (
    "stream = [tail of a readout] + 2..400 strict readouts back to back (0..60 data lines each, 30 B .. ~3 KiB, with/without checksum, CRLF/LF, "
    "unique 10-digit id in each; streams up to ~600 KiB). two families: free-form readouts, and equal-length readouts from one template so that "
    "chunk sizes L, L/2, 2L with an offset never put a call boundary between two readouts. splittings: none, fixed sizes "
    "{1,2,3,7,64,100,1000,1024,4096,8192,65536} with random offset, random cuts, template-aligned sizes, cuts near multiples of 8191/8192 (relative to stream start and to the end of the leading tail), line-by-line and readout-by-readout feeding; plus twin executions (two reader objects fed alternately). evaluations = (stream, splitting) executions; "
    "distinct non-trivial = distinct (stream digest, splitting) pairs whose stream holds >= 2 readouts (all do)."
)
ASSUMPTIONS = ["strict readouts come from vf/ref/p1_ref.py; every one is < 8 KiB"]
WATCHDOG_S = {"quick": 900, "thorough": 7200}
N_STREAMS = {"quick": 38, "thorough": 1300}


def plan(tier: str, seed: int) -> list[dict]:
    shards = [{"kind": "gen", "n": N_STREAMS[tier]} for _ in range(16)]
    # small scope, exhaustively: short streams of the smallest readouts the syntax allows next to ones with the longest identification
    # line, under EVERY splitting into one, two and three calls
    shards += [{"kind": "allcuts", "k": k, "n": 3 if tier == "quick" else 12} for k in range(4)]
    # one call that carries hundreds of readouts (a buffered capture, a stalled consumer), ending off a line boundary, then the rest
    shards.append({"kind": "huge_call", "sizes": [600 * 1024, 1300 * 1024] if tier == "quick" else [600 * 1024, 2 << 20, 9 << 20, 33 << 20]})
    return shards


def run_huge_call(shard: dict, ctx) -> None:
    rng = ctx.rng("c05", "huge")
    ids = p1_gen.IdSource(rng)
    for size in shard["sizes"]:
        templates = [p1_gen.Template(rng, rng.choice((3, 12, 30)), checksum=rng.choice(("correct", None))) for _ in range(4)]
        sent = []
        total = 0
        while total < size:
            r = templates[rng.randrange(4)].make(ids)
            sent.append(r)
            total += len(r)
        first = int(total * rng.choice((0.94, 0.5, 0.99))) | 1
        for spec in (("cuts", [first]), ("cuts", [first, first + 7]), ("none",)):
            compare(b"", sent, spec, ctx)
            ctx.case(f"huge/{size}/{spec[0]}/{first}", True)
        ctx.count("streams_fed_in_calls_of_more_than_half_a_mebibyte")
        ctx.maximum("largest_single_read_call_octets", total)


def run_allcuts(shard: dict, ctx) -> None:
    import itertools

    from vf.ref import p1_ref as _p

    rng = ctx.rng("c05", "allcuts", shard["k"])
    for i in range(shard["n"]):
        def tiny():
            ident = rng.choice((b"/ABC5", b"/ISk5x", _p.strict_ident(rng, with_id=False)[0][:7]))
            return _p.build_readout(ident, [], rng.choice((b"\r\n", b"\n")), rng.choice((None, None, "correct")), False)

        def long_ident():
            while True:
                ident = _p.strict_ident(rng)[0]
                if len(ident) >= 22:
                    return _p.build_readout(ident, [b"1-0:1.8.0(1*kWh)"] * rng.choice((0, 1)), b"\r\n", rng.choice((None, "correct")), rng.random() < 0.5)

        sent = [f() for f in rng.choice(((tiny, long_ident, tiny), (tiny, tiny, long_ident), (long_ident, tiny, long_ident), (tiny, long_ident)))]
        stream = b"".join(sent)
        n = len(stream)
        count = 0
        for cuts in itertools.chain(((c,) for c in range(1, n)), itertools.combinations(range(1, n), 2)):
            compare(b"", sent, ("cuts", list(cuts)), ctx)
            count += 1
        ctx.case(b"allcuts" + stream, True, count)
        ctx.count("short_streams_under_every_splitting_into_up_to_three_calls")
        ctx.count("splittings_enumerated", count)


STATS: dict = {}


def make_stream(rng):
    ids = p1_gen.IdSource(rng)
    n = rng.choice((2, 3, 5, 10, 20, 50, 100, 200, 400))
    sent = []
    template_len = None
    if rng.random() < 0.5:
        t = p1_gen.Template(rng, rng.choice((0, 1, 3, 6, 12, 30)), checksum=rng.choice(("correct", "correct", None)))
        sent = [t.make(ids) for _ in range(n)]
        template_len = len(sent[0])
        if rng.random() < 0.3:
            # a meter whose readings do not change sends byte-identical readouts
            for _ in range(rng.choice((1, 2, 5))):
                pos = rng.randrange(len(sent))
                sent[pos:pos] = [sent[pos]] * rng.choice((1, 1, 2, 3))
            STATS["streams_with_byte_identical_readouts_in_a_row"] = STATS.get("streams_with_byte_identical_readouts_in_a_row", 0) + 1
        if rng.random() < 0.4:
            # a meter repeats its identification line for ever - until another meter answers on the same line (multiplexer, replacement):
            # a run with one identification line, then readouts with another one, possibly the first one again in between
            t2 = p1_gen.Template(rng, rng.choice((0, 1, 3, 6)), checksum=rng.choice(("correct", None)))
            tail = []
            for k in range(rng.choice((1, 2, 3, 5, 8))):
                tail.append(t2.make(ids))
                if rng.random() < 0.3:
                    tail.append(t.make(ids))
            sent += tail
            template_len = None
    else:
        if n > 100:
            n = rng.choice((100, 150))
        for _ in range(n):
            # (one in twelve carries no id line: with no data lines and no blank line after the identification line its data block is empty)
            sent.append(p1_gen.strict_readout(rng, ids if rng.random() < 0.92 else None, checksum=rng.choice(("correct", "correct", "correct", None))))
    if rng.random() < 0.04:
        # two different readouts of equal length that CRC-32 cannot tell apart (no checksum line: all bytes are free), one after the other
        import zlib

        from vf.gen import collide

        ident = p1_ref.strict_ident(rng)[0]
        pre = ident + b"\r\n\r\n1-0:1.8.0("
        post = b"*kWh)\r\n!\r\n"
        base = zlib.crc32(pre)
        salt = rng.randrange(10**9)
        pair = collide.birthday(lambda i: b"%010d" % ((i * 2654435761 + salt) % 10**10), digest=lambda v: zlib.crc32(v + post, base))
        if pair is not None:
            a, b = (b"%010d" % ((i * 2654435761 + salt) % 10**10) for i in pair)
            pos = rng.randrange(len(sent) + 1)
            sent[pos:pos] = [pre + a + post, pre + b + post, pre + a + post]
            template_len = None
            STATS["streams_with_a_crc32_colliding_readout_pair"] = STATS.get("streams_with_a_crc32_colliding_readout_pair", 0) + 1
    if rng.random() < 0.03:
        # two different check-summed readouts of equal length, equal first line and equal CRC16 (so equal end line), one after the other
        from vf.ref import crc16 as _crc

        ident = p1_ref.strict_ident(rng)[0]
        pre = ident + b"\r\n\r\n1-0:1.8.0("
        post = b"*kWh)\r\n!"
        a = b"%010d" % rng.randrange(10**10)
        target = _crc.crc16(pre + a + post)
        state = _crc.crc16(pre)
        for i in range(200000):
            b = b"%010d" % ((i * 2654435761 + 12345) % 10**10)
            if b != a and _crc.crc16(b + post, state) == target:
                pos = rng.randrange(len(sent) + 1)
                sent[pos:pos] = [pre + a + post + b"%04X\r\n" % target, pre + b + post + b"%04X\r\n" % target, pre + a + post + b"%04X\r\n" % target]
                template_len = None
                STATS["streams_with_a_crc16_colliding_readout_pair"] = STATS.get("streams_with_a_crc16_colliding_readout_pair", 0) + 1
                break
    lead = b""
    if rng.random() < 0.08:
        # the stream begins in the middle of a readout whose identification contains a '/' (e.g. '/ISK5MT382/1000'), cut right there
        odd = b"/" + bytes(rng.choice(b"ABCDEFGHIJKLMNOPQRSTUVWXYZ") for _ in range(3)) + b"5MT382/" + bytes(rng.choice(b"0123456789") for _ in range(rng.randint(1, 8)))
        other = p1_ref.build_readout(odd, [p1_gen.data_line(rng, ids) for _ in range(rng.choice((0, 1, 4)))])
        lead = other[other.index(b"/", 1) :]
        STATS["streams_that_begin_inside_an_identification_line_at_a_slash"] = STATS.get("streams_that_begin_inside_an_identification_line_at_a_slash", 0) + 1
    elif rng.random() < 0.4:
        other = p1_gen.strict_readout(rng, ids, rng.choice((1, 5, 20)))
        lead = other[rng.randrange(1, len(other)) :]
    return lead, sent, template_len


def specs_for(rng, total: int, lead_len: int, L: int | None):
    specs = [("none",)]
    sizes = [s for s in splits.FIXED_SIZES if s < total and (s >= 7 or total <= 30000)]
    for s in rng.sample(sizes, min(4, len(sizes))):
        specs.append(("fixed", s, rng.randrange(s + 1)))
    for s in (1000, 4096):
        if s < total:
            specs.append(("fixed", s, 0))
    k = rng.randint(1, 12)
    specs.append(("cuts", sorted(rng.sample(range(1, total), min(k, total - 1)))))
    # cuts near the multiples of the reader's 8 KiB guard, relative to the stream start and to the end of the leading tail
    specs.append(splits.limit_spec(rng, total))
    near = sorted({min(total - 1, max(1, lead_len + k8 * 8192 + rng.randint(-60, 120))) for k8 in range(1, 1 + min(6, total // 8192))})
    if near:
        specs.append(("cuts", near[: rng.randint(1, len(near))]))
        specs.append(("cuts", [rng.choice(near)]))
    if L is not None:
        for c in {L, 2 * L, L // 2 if L % 2 == 0 else L, 3 * L}:
            if c < total:
                off = (lead_len + rng.randrange(1, c)) % c or 1
                # first boundary at off (0 < off < c), then every c: never at lead_len + k*L when c is a multiple/divisor-compatible of L
                specs.append(("fixed", c, off))
    return specs


def twin(rng, ctx, prop: str = "C05") -> None:
    """Two ModeDReader objects fed alternately must each deliver exactly their own stream (no state shared between instances)."""
    ids = p1_gen.IdSource(rng)
    sents = [[p1_gen.strict_readout(rng, ids, rng.choice((0, 2, 6))) for _ in range(rng.randint(2, 6))] for _ in range(2)]
    chunk_lists = [splits.chunks(b"".join(st), splits.random_spec(rng, len(b"".join(st)))) for st in sents]
    if rng.random() < 0.5:
        chunk_lists = [splits.chunks(b"".join(st), splits.aligned_spec(b"".join(st), 0x0A, 1)) for st in sents]
    readers = [p1_mon.new_reader(), p1_mon.new_reader()]
    got = [[], []]
    idx = [0, 0]
    order = []
    raised = None
    while idx[0] < len(chunk_lists[0]) or idx[1] < len(chunk_lists[1]):
        k = rng.randrange(2)
        if idx[k] >= len(chunk_lists[k]):
            k = 1 - k
        order.append(k)
        try:
            for m in readers[k].read(chunk_lists[k][idx[k]]):
                if m is p1_mon.POISON:
                    ctx.violation(f"{prop}:returned-list-shared-between-calls", "read() handed back an object that a caller had appended to the list returned by an earlier call", {"twin": True, "chunks": [list(c) for c in chunk_lists], "order": order, "sent": sents})
                    return
                got[k].append((bytes(m.as_bytes), m.is_valid is True))
        except Exception as ex:
            raised = ex
        idx[k] += 1
    ctx.count("twin_executions")
    case = {"twin": True, "chunks": [list(c) for c in chunk_lists], "order": order, "sent": sents}
    if raised is not None:
        ctx.violation(f"{prop}:read-raised:{p1_mon.where(raised)}", f"read() raised {raised!r} on clean streams fed to two reader objects alternately", case)
    for k in range(2):
        if got[k] != [(r, True) for r in sents[k]]:
            ctx.violation(f"{prop}:instances-share-state", f"reader {k}: {len(sents[k])} clean readouts sent, {sum(1 for g in got[k] if g[1])} delivered valid and byte-identical when another reader object is used in between", case)


def compare(lead: bytes, sent: list[bytes], spec, ctx) -> None:
    stream = lead + b"".join(sent)
    states: set = set()
    obs, exc, at = p1_mon.run(splits.chunks(stream, spec), states=states)
    case = {"lead": lead, "sent": sent if len(stream) < 60000 else None, "n": len(sent), "split": list(spec),
            "readout_len": len(sent[0]), "stream_len": len(stream)}
    if len(stream) >= 60000:
        case["regen"] = ctx.regen if hasattr(ctx, "regen") else None
    ctx.count("readouts_sent", len(sent))
    ctx.count("readouts_returned", len(obs))
    ctx.count("bytes_fed", len(stream))
    if exc is not None:
        ctx.violation(f"C05:read-raised:{p1_mon.where(exc)}", f"read() raised {exc!r} at chunk {at} of a clean stream", case)
        return
    if any(o.get("poison") for o in obs):
        ctx.violation("C05:returned-list-shared-between-calls", "read() handed back an object that the caller had appended to the list returned by an earlier call", case)
        return
    got = [o["bytes"] for o in obs]
    if got != sent:
        if len(got) < len(sent):
            kind = "lost"
        elif len(got) > len(sent):
            kind = "extra"
        else:
            kind = "altered"
        first_bad = next((i for i, (g, s) in enumerate(zip(got, sent)) if g != s), min(len(got), len(sent)))
        ctx.violation(
            f"C05:readout-{kind}",
            f"sent {len(sent)} readouts ({len(stream)} bytes, split {spec[:2]}), reader returned {len(got)}; first difference at #{first_bad}",
            case,
        )
        return
    for i, o in enumerate(obs):
        if o.get("changed_later"):
            ctx.violation("C05:readout-changed-after-return", f"readout #{i} answered differently (bytes/validity/payload) after later read() calls", case)
            return
        if o["valid"] is not True:
            ctx.violation("C05:clean-readout-invalid", f"readout #{i} returned byte-identical but is_valid={o['valid']!r} {list(o['exceptions'])}", case)
            return


def run(shard: dict, ctx) -> None:
    if shard.get("kind") == "allcuts":
        return run_allcuts(shard, ctx)
    if shard.get("kind") == "huge_call":
        return run_huge_call(shard, ctx)
    for i in range(shard["n"]):
        rng = ctx.rng("c05", i)
        ctx.regen = {"shard": shard["index"], "i": i, "seed": ctx.seed}
        lead, sent, L = make_stream(rng)
        for k, v in STATS.items():
            ctx.count(k, v)
        STATS.clear()
        total = len(lead) + sum(map(len, sent))
        specs = specs_for(rng, total, len(lead), L)
        for spec in specs:
            compare(lead, sent, spec, ctx)
            ctx.case(f"{shard['index']}/{i}/{spec}", True)
        # delimiter-aligned feeding: line by line, and readout by readout
        full = lead + b"".join(sent)
        if total < 120000:
            compare(lead, sent, splits.aligned_spec(full, 0x0A, rng.choice((1, 1, 3))), ctx)
            ctx.case(f"{shard['index']}/{i}/lines", True)
        bounds, pos = [], len(lead)
        for r_ in sent[:-1]:
            pos += len(r_)
            bounds.append(pos)
        compare(lead, sent, ("cuts", bounds), ctx)
        ctx.case(f"{shard['index']}/{i}/readouts", True)
        if i % 3 == 0:
            twin(rng, ctx)
        ctx.count("streams_template" if L else "streams_freeform")
        ctx.count("streams_with_leading_tail" if lead else "streams_without_lead")
        ctx.maximum("max_stream_bytes", total)
        if total > 8192:
            ctx.count("streams_longer_than_8KiB")
        if i < 1:
            ctx.sample({"n_readouts": len(sent), "stream_bytes": total, "lead": lead[:60], "first_readout": sent[0].decode(), "splits": [list(s)[:3] for s in specs]})


def replay(case: dict, ctx) -> None:
    if case.get("twin"):
        readers = [p1_mon.new_reader(), p1_mon.new_reader()]
        got = [[], []]
        idx = [0, 0]
        for k in case["order"]:
            try:
                for m in readers[k].read(case["chunks"][k][idx[k]]):
                    if m is not p1_mon.POISON:
                        got[k].append((bytes(m.as_bytes), m.is_valid is True))
            except Exception as ex:
                ctx.violation(f"C05:read-raised:{p1_mon.where(ex)}", repr(ex), case)
            idx[k] += 1
        for k in range(2):
            if got[k] != [(r, True) for r in case["sent"][k]]:
                ctx.violation("C05:instances-share-state", f"reader {k} differs when interleaved", case)
        return
    if case.get("sent") is None:
        import random  # regenerate the large stream from its generator parameters

        from vf.ctx import Ctx

        g = case["regen"]
        c2 = Ctx("C05", "quick", g["seed"], {"index": g["shard"]})
        lead, sent, _ = make_stream(c2.rng("c05", g["i"]))
    else:
        lead, sent = case["lead"], case["sent"]
    compare(lead, sent, tuple(case["split"]), ctx)


def finalize(agg: dict, tier: str):
    c = agg["counters"]
    reasons = []
    for k in ("streams_template", "streams_freeform", "streams_with_leading_tail", "streams_longer_than_8KiB"):
        if c.get(k, 0) == 0:
            reasons.append(f"workload never produced '{k}'")
    return {}, reasons
