"""C11 - P1 readouts parse into the transmitted data sets and decode with exact units.

Monitor: data blocks are emitted from the IEC 62056-21 grammar by a generator
that remembers every address, value and unit it wrote; the real
parse_p1_readout_content / decode_p1_readout_content / decode_p1_readout /
AutoDecoder are compared with that record (exact Fraction arithmetic for the
unit conversion). A sweep runs the whole 0.000..999.999 kW value space through
the conversion to show the error is one-sided and below one unit.
"""
from __future__ import annotations

import datetime
from fractions import Fraction

from vf.mon import p1_mon
from vf.ref import names, p1_ref

ID = "C11"
LEVEL = "exploration"
RULE = (
    "block = 1..12 data lines, each 1..3 data sets 'address(value[*unit])...' with a reduced OBIS address (E always present, optional A-, B:, *F; C.D.E known to the name table in half the cases, "
    "field names unique per block), 1..4 values per data set (single-valued ones are the decoded ones), decimals with 0..3 fractional digits, <= 10 integer digits and leading zeros, units "
    "kW/kWh/kvar/kvarh/V/A/var/varh in random letter case or other/no unit, the 1.0.0 clock as YYMMDDhhmmss[W|S], blank lines, LF or CRLF; ident line from the strict generator. "
    "oracles: parse == emitted (address, [(value, unit)]); decode per statement (kW family: integer r with N-1 <= r <= N, N = value x 1000 exactly); decode_p1_readout == content decode + ident fields; "
    "AutoDecoder (payload and DataReadout message) agrees. sweep: every value 0.000..999.999 (thorough) / every 10th (quick) through the kW conversion. "
    "evaluations = blocks + sweep values; distinct non-trivial = distinct block digests containing >= 1 unit-converted value, plus distinct sweep values (by construction)."
)
ASSUMPTIONS = ["grammar and expected values come from vf/ref/p1_ref.py and the frozen name table vf/ref/names.py"]
WATCHDOG_S = {"quick": 900, "thorough": 7200}
N = {"quick": 320, "thorough": 12500}

_PRIMERS = None
TEXT_CHARS = "ABCDEFGHIJKLMNOPQRSTUVWXYZabcdefghijklmnopqrstuvwxyz0123456789.-:_ "


def plan(tier, seed):
    shards = [{"kind": "blocks", "n": N[tier]} for _ in range(16)]
    step = 10 if tier == "quick" else 1
    for k in range(16):
        shards.append({"kind": "sweep", "lo": k * 62500, "hi": (k + 1) * 62500, "step": step, "offset": seed % step})
    return shards


KNOWN_CDE = [tuple(int(x) for x in k.split(".")) for k in names.OBIS_NAMES if k != "1.0.0"]


def make_block(rng):
    """Returns (block bytes, expected parse list, expected decode dict, tags)."""
    eol = rng.choice((b"\r\n", b"\r\n", b"\n"))
    used_names = set()
    parse_expect = []
    decode_expect = {}
    tags = set()
    lines = []
    long_kind = rng.choice(("many_sets_on_one_line", "long_text_value")) if rng.random() < 0.06 else None
    n_lines = rng.randint(1, 12)
    long_at = rng.randrange(n_lines)
    for li in range(n_lines):
        if rng.random() < 0.12 and not (long_kind and li == long_at):
            lines.append(b"" if rng.random() < 0.7 else b"  ")
            continue
        line = ""
        n_sets = rng.choice((1, 1, 1, 2, 3))
        if long_kind == "many_sets_on_one_line" and li == long_at:
            # one physical line of several thousand characters (no rule of the syntax limits it)
            n_sets = rng.choice((90, 130, 200, 400))
            tags.add("line_longer_than_2048")
        for si in range(n_sets):
            # address
            while True:
                r = rng.random()
                if r < 0.45:
                    c, d, e = rng.choice(KNOWN_CDE)
                elif r < 0.55:
                    c, d, e = 1, 0, 0
                elif r < 0.61:
                    # codes that DSMR / ESMR telegrams carry next to the registers: version, equipment ids, text messages, M-Bus device types
                    c, d, e = rng.choice(((0, 2, 8), (96, 1, 1), (96, 1, 0), (96, 13, 0), (96, 13, 1), (96, 14, 0), (24, 1, 0), (96, 1, 7), (0, 0, 5), (96, 7, 21), (17, 0, 0)))
                elif r < 0.67:
                    # a code that a *naive packing* of (C, D, E) cannot tell from a named one: base-100 / base-10 packing with a carry
                    # (1.7.100 ~ 1.8.0), the digits written next to each other (1.80.0 ~ 18.0.0), one group above 99 or 199
                    kc, kd, ke = rng.choice(KNOWN_CDE + [(1, 0, 0)])
                    cand = [(kc, kd - 1, ke + 100), (kc - 1, kd + 100, ke), (kc - 1, kd + 99, ke + 100), (kc, kd - 2, ke + 200), (kc, kd - 1, ke + 10), (kc - 1, kd + 10, ke),
                            (int(f"{kc}{kd}"), ke, 0), (kc, int(f"{kd}{ke}"), 0), (0, kc, int(f"{kd}{ke}")), (kc + 100, kd, ke), (kc, kd + 100, ke), (kc, kd, ke + 100), (kc, kd, ke + 200), (kc + 256 - 256, kd, (ke + 128) % 256)]
                    cand = [t for t in cand if all(0 <= x <= 255 for x in t)]
                    c, d, e = rng.choice(cand) if cand else (rng.randrange(256), rng.randrange(256), rng.randrange(256))
                    tags.add("code_next_to_a_named_one_under_a_naive_packing")
                else:
                    c, d, e = rng.randrange(256), rng.randrange(256), rng.randrange(256)
                key = names.OBIS_NAMES.get(f"{c}.{d}.{e}", f"{c}.{d}.{e}")
                if key not in used_names:
                    used_names.add(key)
                    break
            a = rng.choice((None, 0, 1, rng.randrange(256)))
            b = rng.choice((None, 0, 1, rng.randrange(256)))
            f = rng.choice((None, None, 255, rng.randrange(256)))
            addr, _g = p1_ref.reduced_address(rng, (a, b, c, d, e, f))
            nvals = rng.choice((1, 1, 1, 1, 2, 3, 4))
            vals = []
            for vi in range(nvals):
                if (c, d, e) == (1, 0, 0) and nvals == 1:
                    text, dt = p1_ref.datetime_text(rng)
                    vals.append((text, None))
                    decode_expect[key] = ("datetime", dt)
                    tags.add("clock")
                    continue
                r = rng.random()
                if r < 0.4:
                    unit = p1_ref.random_case(rng, rng.choice(p1_ref.UNITS_K))
                    v = p1_ref.decimal_text(rng)
                    tags.add("k_unit")
                elif r < 0.65:
                    unit = p1_ref.random_case(rng, rng.choice(p1_ref.UNITS_PLAIN))
                    v = p1_ref.decimal_text(rng)
                    tags.add("plain_unit")
                elif r < 0.75:
                    unit = rng.choice(p1_ref.UNITS_OTHER)
                    v = p1_ref.decimal_text(rng)
                    tags.add("other_unit")
                else:
                    unit = None
                    n_chars = rng.randint(0, 24)
                    if rng.random() < 0.12:
                        # text that reads like a quantity - "230 V", "3 kW", "1.5kWh" - but is not written as value*unit: verbatim;
                        # and hex-coded text of special characters (blanks, NULs, letters and digits) as meters send ids and messages
                        v = rng.choice((f"{p1_ref.decimal_text(rng)} {rng.choice(p1_ref.UNITS_K + p1_ref.UNITS_PLAIN)}", f"{rng.randint(0, 999)}{rng.choice(('kW', 'V', 'A', 'kWh'))}",
                                        "2020", "20", "00", "0A0D", "202020202020", "31323334", "4B384547303034303436333935353037", "414243", "50", "42", "5"))
                        vals.append((v, None))
                        tags.add("text_value")
                        if nvals == 1:
                            k2, kind, payload = p1_ref.expected_decode(f"{c}.{d}.{e}", v, None, names.OBIS_NAMES)
                            decode_expect[key] = (kind, payload)
                        continue
                    if long_kind == "long_text_value" and li == long_at and si == 0:
                        n_chars = rng.choice((2040, 2047, 2048, 2049, 2100, 4096, 6000))  # e.g. the 1024-octet text message of DSMR, hex coded
                        tags.add("line_longer_than_2048")
                    v = "".join(rng.choice(TEXT_CHARS) for _ in range(n_chars))
                    tags.add("text_value")
                vals.append((v, unit))
                if nvals == 1:
                    k2, kind, payload = p1_ref.expected_decode(f"{c}.{d}.{e}", v, unit, names.OBIS_NAMES)
                    decode_expect[key] = (kind, payload)
            if nvals > 1:
                tags.add("multi_value")
            parse_expect.append((addr, vals))
            line += addr + "".join("(" + v + ("*" + u if u is not None else "") + ")" for v, u in vals)
        lines.append(line.encode("ascii"))
    if rng.random() < 0.06 and not ({"0.2.8", "96.1.1", "96.1.0"} & used_names) and names.OBIS_NAMES.get("96.1.1", "96.1.1") not in used_names and names.OBIS_NAMES.get("96.1.0", "96.1.0") not in used_names:
        # the head of a DSMR / ESMR telegram: the version data set (4.2, 5.0, ...) followed by equipment identifiers that are hex-coded ASCII
        ver = rng.choice(("50", "42", "40", "5", "51"))
        ident_hex = rng.choice(("31323334", "4B384547303034303436333935353037", "4532303034", "414243444546"))
        head_lines = []
        for cde, val in (("0.2.8", ver), (rng.choice(("96.1.1", "96.1.0")), ident_hex)):
            addr = rng.choice(("1-3:", "0-0:", "")) + cde
            key = names.OBIS_NAMES.get(cde, cde)
            used_names.add(key)
            parse_expect.insert(len(head_lines), (addr, [(val, None)]))
            decode_expect[key] = ("verbatim", val)
            head_lines.append(f"{addr}({val})".encode())
        lines[0:0] = head_lines
        tags.add("dsmr_version_and_hex_coded_identifier")
    if rng.random() < 0.2:
        # "sequence of historical values": the same code twice, distinguished only by group F; the second one without unit (verbatim)
        c, d, e = rng.choice(((1, 6, 0), (1, 8, 0), (2, 8, 0), (16, 7, 0), rng.choice(KNOWN_CDE)))
        key = names.OBIS_NAMES.get(f"{c}.{d}.{e}", f"{c}.{d}.{e}")
        if key not in used_names:
            used_names.add(key)
            f1, f2 = rng.sample(range(0, 100), 2)
            a1, _ = p1_ref.reduced_address(rng, (1, 0, c, d, e, f1))
            a2, _ = p1_ref.reduced_address(rng, (1, 0, c, d, e, f2))
            v1, u1 = p1_ref.decimal_text(rng), rng.choice(p1_ref.UNITS_K + p1_ref.UNITS_PLAIN)
            v2 = p1_ref.decimal_text(rng)
            parse_expect.append((a1, [(v1, u1)]))
            parse_expect.append((a2, [(v2, None)]))
            decode_expect[key] = ("verbatim", v2)  # the later data set of the same C.D.E wins, and it has no unit
            lines.append(f"{a1}({v1}*{u1})".encode())
            lines.append(f"{a2}({v2})".encode())
            tags.add("historical_pair")
    if not parse_expect:
        return make_block(rng)
    block = eol.join(lines) + eol
    return block, parse_expect, decode_expect, tags


def compare_decoded(got, expect: dict, ctx, case, what: str) -> None:
    if not isinstance(got, dict):
        ctx.violation(f"C11:{what}:not-a-dict", f"{what} returned {got!r:.80}", case)
        return
    for key, (kind, payload) in expect.items():
        if key not in got:
            ctx.violation(f"C11:{what}:missing-key", f"{what}: key {key!r} missing (have {sorted(got)[:8]})", case)
            continue
        g = got[key]
        if kind == "float":
            if isinstance(g, bool) or not isinstance(g, (int, float)) or g != payload:
                ctx.violation(f"C11:{what}:plain-unit-value", f"{what}: {key} = {g!r}, transmitted number {payload!r}", case)
        elif kind == "floor1000":
            n_exact = payload
            if isinstance(g, bool) or not isinstance(g, int) or not (n_exact - 1 <= g <= n_exact):
                side = "above" if isinstance(g, (int, float)) and g > n_exact else "below-or-type"
                ctx.violation(f"C11:{what}:k-unit-value:{side}", f"{what}: {key} = {g!r}, exact value x 1000 = {n_exact}", case)
            elif g != n_exact:
                ctx.count("k_unit_values_one_below_exact")
        elif kind == "datetime":
            if g != payload or not isinstance(g, datetime.datetime) or g.tzinfo is not None:
                ctx.violation(f"C11:{what}:clock", f"{what}: {key} = {g!r}, transmitted local time {payload!r}", case)
        else:
            if g != payload:
                ctx.violation(f"C11:{what}:verbatim-value", f"{what}: {key} = {g!r}, transmitted {payload!r}", case)
    for key in got:
        if key not in expect:
            ctx.violation(f"C11:{what}:unexpected-key", f"{what}: unexpected key {key!r} = {got[key]!r:.40}", case)


_blocks = 0


def check_block(block, parse_expect, decode_expect, ident, ctx) -> None:
    from han import dlde
    from han.autodecoder import AutoDecoder

    case = {"block": block, "ident": ident[0]}
    global _blocks
    _blocks += 1
    if _blocks % 6 == 0:
        # a process that also serves DLMS meters: the other decoders meet this block's codes (named or not) in their own lists first
        import re as _re

        from han import aidon as _aidon, kaifa as _kaifa, kamstrup as _kamstrup
        from vf.ref import cosem_enc as _ce

        codes = []
        for addr, _vals in parse_expect[:6]:
            m = _re.search(r"(\d+)\.(\d+)\.(\d+)", addr)
            if m:
                codes.append(tuple(int(x) for x in m.groups()))
        for c, d, e in codes:
            for fn, body in ((_kamstrup.decode_notification_body, _ce.kamstrup_body("Kamstrup_V0001", [((1, 1, c, d, e, 255), _ce.u32(7))])),
                             (_aidon.decode_notification_body, _ce.aidon_body([_ce.aidon_element((1, 0, c, d, e, 255), "u32", 7, 0, _ce.UNIT_W)])),
                             (_kaifa.decode_notification_body, _ce.kaifa_obis_body([((1, 0, c, d, e, 255), _ce.u32(7)), ((1, 0, 2, 7, 0, 255), _ce.u32(8))]))):
                try:
                    fn(body)
                except Exception:
                    pass  # whether the other decoder likes the code is not this property's business
        ctx.count("blocks_whose_codes_another_decoder_met_first")
    # --- parsing
    try:
        parsed = dlde.parse_p1_readout_content(block)
    except Exception as ex:
        ctx.violation(f"C11:parse:exception:{p1_mon.where(ex)}", f"parse raised {ex!r:.150}", case)
        return
    got_parse = [(ds.address, [(v.value, v.unit) for v in ds.values]) for ds in parsed]
    if got_parse != parse_expect:
        kind = "count" if len(got_parse) != len(parse_expect) else "content"
        first = next((i for i, (g, w) in enumerate(zip(got_parse, parse_expect)) if g != w), min(len(got_parse), len(parse_expect)))
        ctx.violation(f"C11:parse:data-sets-differ:{kind}", f"{len(got_parse)} data sets parsed, {len(parse_expect)} emitted; first difference #{first}: got {got_parse[first] if first < len(got_parse) else None!r:.80} want {parse_expect[first] if first < len(parse_expect) else None!r:.80}", case)
    # --- decoding the content
    try:
        dec = dlde.decode_p1_readout_content(block)
    except Exception as ex:
        ctx.violation(f"C11:decode-content:exception:{p1_mon.where(ex)}", f"decode_p1_readout_content raised {ex!r:.150}", case)
        return
    compare_decoded(dec, decode_expect, ctx, case, "decode-content")
    # --- whole readout
    ident_line, man, ident_id = ident
    readout_bytes = ident_line + b"\r\n" + block + b"!\r\n"
    try:
        ro = dlde.DataReadout(readout_bytes)
        full = dlde.decode_p1_readout(ro)
    except Exception as ex:
        ctx.violation(f"C11:decode-readout:exception:{p1_mon.where(ex)}", f"decode_p1_readout raised {ex!r:.150}", case)
        return
    expect_full = dict(decode_expect)
    expect_full["meter_manufacturer_id"] = ("verbatim", man)
    if ident_id is not None:
        expect_full["meter_type_id"] = ("verbatim", ident_id)
    compare_decoded(full, expect_full, ctx, case, "decode-readout")
    rest = {k: v for k, v in full.items() if k not in ("meter_manufacturer_id", "meter_type_id")}
    if rest != dec:
        ctx.violation("C11:decode-readout-vs-content", "decode_p1_readout and decode_p1_readout_content disagree on the data fields", case)
    # --- AutoDecoder
    try:
        a1 = AutoDecoder().decode_message_payload(block)
        a2 = AutoDecoder().decode_message(ro)
    except BaseException as ex:
        ctx.violation(f"C11:autodecoder:exception:{p1_mon.where(ex)}", f"AutoDecoder raised {ex!r:.150}", case)
        return
    # an AutoDecoder whose last success was another meter's decoder must decode the readout just the same
    global _PRIMERS
    if _PRIMERS is None:
        import random as _random

        from vf.gen import pool as _pool

        _PRIMERS = {}
        for _label, fam, form, data in _pool.genuine(_random.Random(1), 1):
            _PRIMERS.setdefault(_pool.own_decoder(fam, form), data)
    for name, primer in _PRIMERS.items():
        try:
            ad = AutoDecoder()
            ad.decode_message_payload(primer)
            primed_name = ad.previous_success_decoder
            a3 = ad.decode_message(ro)
        except BaseException as ex:
            ctx.violation(f"C11:autodecoder:exception:{p1_mon.where(ex)}", f"AutoDecoder primed with {name} raised {ex!r:.120}", case)
            continue
        ctx.count("primed_autodecoder_readouts")
        if a3 != full:
            ctx.violation("C11:autodecoder:message-differs-after-other-decoder", f"AutoDecoder whose previous success was {primed_name}: decode_message(DataReadout) = {a3!r:.80} != decode_p1_readout", case)
            break
    if a1 != dec:
        ctx.violation("C11:autodecoder:payload-differs", f"AutoDecoder.decode_message_payload(block) = {a1!r:.80} != decode_p1_readout_content", case)
    if a2 != full:
        ctx.violation("C11:autodecoder:message-differs", f"AutoDecoder.decode_message(DataReadout) = {a2!r:.80} != decode_p1_readout", case)


def crc_collision_pairs(rng, ctx, n: int) -> None:
    """Two different, correctly check-summed readouts of equal length whose CRC16 coincide, decoded one after the other:
    each must decode to its own values (a result memo keyed by checksum and length would return the first one's)."""
    from han import dlde
    from han.autodecoder import AutoDecoder

    from vf.ref import crc16

    for _ in range(n):
        ident = p1_ref.strict_ident(rng)[0]
        w1, w2 = "%06d" % rng.randrange(10**6), "%06d" % rng.randrange(10**6)
        head1 = ident + b"\r\n1-0:1.8.0(" + w1.encode() + b".000*kWh)\r\n0-0:96.1.0("
        head2 = ident + b"\r\n1-0:1.8.0(" + w2.encode() + b".000*kWh)\r\n0-0:96.1.0("
        tail = b")\r\n!"
        r1 = head1 + b"AAAAA" + tail
        target = crc16.crc16(r1)
        state = crc16.crc16(head2)
        found = None
        alphabet = b"0123456789ABCDEFGHIJKLMNOPQRSTUVWXYZabcdefghijklmnopqrstuvwxyz"
        for tries in range(1 << 19):
            val = bytes(rng.choice(alphabet) for _ in range(5))
            if crc16.crc16(val + tail, state) == target:
                found = val
                break
        if found is None or w1 == w2:
            continue
        r2 = head2 + found + tail
        texts = [r + b"%04X\r\n" % target for r in (r1, r2)]
        ctx.count("crc_and_length_collision_pairs")
        ad = AutoDecoder()
        for text, w in zip(texts, (w1, w2)):
            ro = dlde.DataReadout(text)
            case = {"block": ro.payload, "ident": ident, "collision_pair": [t for t in texts]}
            for name, fn in (("decode_p1_readout", lambda: dlde.decode_p1_readout(ro)), ("AutoDecoder.decode_message", lambda: ad.decode_message(ro))):
                got = fn()
                if not isinstance(got, dict) or got.get("active_power_import_total") != int(w) * 1000:
                    ctx.violation("C11:decode-readout:value-of-another-readout", f"{name}: readout with 1.8.0 = {w}.000 kWh decoded to {got.get('active_power_import_total') if isinstance(got, dict) else got!r} (previous readout had the same CRC16 and length)", case)
        ctx.case(b"coll" + r1 + r2, True, 4)


def run(shard, ctx):
    if shard["kind"] == "sweep":
        if shard["lo"] == 0:
            crc_collision_pairs(ctx.rng("c11coll"), ctx, 3)
        from han import dlde

        n = 0
        one_below = 0
        for k in range(shard["lo"] + shard["offset"], shard["hi"], shard["step"]):
            text = f"{k // 1000}.{k % 1000:03d}"
            if k % 7 == 0:
                text = "000" + text
            got = dlde.decode_p1_readout_content(f"1-0:1.7.0({text}*kW)\r\n".encode())["active_power_import"]
            n += 1
            if isinstance(got, bool) or not isinstance(got, int) or not (k - 1 <= got <= k):
                side = "above" if got > k else "below"
                ctx.violation(f"C11:sweep:k-unit-value:{side}", f"{text} kW decoded to {got!r} W, exact {k}", {"sweep_value": text})
            elif got != k:
                one_below += 1
        ctx.enumerated(n, n)
        ctx.count("sweep_values", n)
        ctx.count("sweep_values_one_below_exact", one_below)
        ctx.sample({"sweep": [shard["lo"], shard["hi"], shard["step"]], "example": "1-0:1.7.0(1.011*kW) -> 1010 or 1011"})
        return
    rng = ctx.rng(ID)
    for i in range(shard["n"]):
        block, pe, de, tags = make_block(rng)
        ident = p1_ref.strict_ident(rng, with_id=rng.random() < 0.85)
        check_block(block, pe, de, ident, ctx)
        ctx.case(block, "k_unit" in tags or "plain_unit" in tags)
        for t in tags:
            ctx.count(f"tag_{t}")
        ctx.count("data_sets_emitted", len(pe))
        if i < 2:
            ctx.sample({"block": block.decode(), "ident": ident[0].decode(), "expected_keys": sorted(de)[:10]})


def replay(case, ctx):
    if "collision_pair" in case:
        from han import dlde

        outs = [dlde.decode_p1_readout(dlde.DataReadout(t)).get("active_power_import_total") for t in case["collision_pair"]]
        if outs[0] == outs[1]:
            ctx.violation("C11:decode-readout:value-of-another-readout", f"two different readouts decoded to the same value {outs[0]}", case)
        return
    if "sweep_value" in case:
        from han import dlde

        text = case["sweep_value"]
        k = int(Fraction(text) * 1000)
        got = dlde.decode_p1_readout_content(f"1-0:1.7.0({text}*kW)\r\n".encode())["active_power_import"]
        if not (k - 1 <= got <= k):
            ctx.violation("C11:sweep:k-unit-value", f"{text} -> {got}", case)
        return
    # re-derive the expectation from the block text with the reference grammar reader
    block = case["block"]
    pe, de = reference_read(block)
    import re

    line = case["ident"]
    m = re.match(rb"^/([A-Za-z]{3})\d((?:\\\w)*)(.*)$", line)
    ident = (line, m.group(1).decode(), m.group(3).decode() or None)
    check_block(block, pe, de, ident, ctx)


def reference_read(block: bytes):
    """Tiny independent reader of well-formed blocks (used for replay only)."""
    import re

    pe, de = [], {}
    for line in block.decode("ascii").splitlines():
        if not line.strip():
            continue
        for m in re.finditer(r"([^()]+)((?:\([^()]*\))+)", line):
            addr = m.group(1)
            vals = []
            for v in re.findall(r"\(([^()]*)\)", m.group(2)):
                if "*" in v:
                    a, b = v.split("*", 1)
                    vals.append((a, b))
                else:
                    vals.append((v, None))
            pe.append((addr, vals))
            if len(vals) == 1:
                g = re.match(r"(?:(\d+)-)?(?:(\d+):)?(\d+)\.(\d+)\.(\d+)(?:\*(\d+))?$", addr)
                cde = f"{int(g.group(3))}.{int(g.group(4))}.{int(g.group(5))}"
                v, u = vals[0]
                dt = None
                if cde == "1.0.0" and u is None:
                    dt = datetime.datetime(2000 + int(v[0:2]), int(v[2:4]), int(v[4:6]), int(v[6:8]), int(v[8:10]), int(v[10:12]))
                key, kind, payload = p1_ref.expected_decode(cde, v, u, names.OBIS_NAMES, dt)
                de[key] = (kind, payload)
    return pe, de


def finalize(agg, tier):
    c = agg["counters"]
    reasons = [f"workload never produced '{k}'" for k in ("tag_k_unit", "tag_plain_unit", "tag_clock", "tag_multi_value", "tag_text_value", "sweep_values")
               if c.get(k, 0) == 0]
    want = 1000000 // (10 if tier == "quick" else 1)
    extra = {"sweep_exhaustive": c.get("sweep_values", 0) == 1000000}
    if c.get("sweep_values", 0) != want:
        reasons.append(f"sweep covered {c.get('sweep_values', 0)} of {want} values")
    return extra, reasons
