"""Shared driver of C07 / C08 / C09 / C10: run a generated list through a vendor decoder and compare."""
from __future__ import annotations

import importlib

from vf.gen import dlms_gen
from vf.mon import p1_mon


def category(field: str) -> str:
    if field.startswith("current"):
        return "current"
    if field.startswith("voltage"):
        return "voltage"
    if field.endswith("_total"):
        return "energy"
    if "power" in field:
        return "power"
    if field == "meter_datetime":
        return "clock"
    if field == "meter_manufacturer":
        return "manufacturer"
    if field in ("list_ver_id", "meter_id", "meter_type"):
        return "text"
    return "other"


def decode_both(vendor: str, case):
    mod = importlib.import_module(f"han.{vendor}")
    out = {}
    for form, fn, data in (("body", mod.decode_notification_body, case.body), ("frame", mod.decode_frame_content, case.frame)):
        try:
            out[form] = (fn(data), None)
        except Exception as ex:
            out[form] = (None, ex)
    return out


def check_case(prop: str, case, ctx, extra_tag: str = "") -> bool:
    """Returns True when every compared field agreed."""
    res = decode_both(case.vendor, case)
    ok = True
    wit = {"vendor": case.vendor, "layout": case.layout, "body": case.body, "frame": case.frame,
           "expect_body": _plain(case.expect_body), "expect_frame": _plain(case.expect_frame)}
    for form, expect in (("body", case.expect_body), ("frame", case.expect_frame)):
        got, ex = res[form]
        if ex is not None:
            ctx.violation(f"{prop}:{form}:exception:{p1_mon.where(ex)}", f"{case.vendor} {case.layout} {form}: decoder raised {ex!r:.200}", wit)
            ok = False
            continue
        for fld, problem in dlms_gen.compare_dict(got, expect):
            kind = "missing-key" if problem == "missing" else "unexpected-key" if problem.startswith("unexpected") else "value"
            ctx.violation(f"{prop}:{form}:{kind}:{category(fld)}{extra_tag}", f"{case.vendor} {case.layout} {form}: {fld}: {problem}", wit)
            ok = False
        ctx.count(f"fields_compared_{form}", len(expect))
    # decoding is a function of the octets: wreck the dictionaries that were returned, decode the same octets again, compare again
    for form in ("body", "frame"):
        got, ex = res[form]
        if isinstance(got, dict):
            got.clear()
            got["meter_manufacturer"] = "wrecked by the caller"
    res2 = decode_both(case.vendor, case)
    for form, expect in (("body", case.expect_body), ("frame", case.expect_frame)):
        got, ex = res2[form]
        if ex is None and res[form][1] is None:
            for fld, problem in dlms_gen.compare_dict(got, expect):
                ctx.violation(f"{prop}:{form}:second-decode-differs", f"{case.vendor} {case.layout} {form}: decoding the same octets again after the caller changed the first result: {fld}: {problem}", wit)
                ok = False
                break
    res = res2
    # frame vs body on every field except the clock
    (gb, eb), (gf, ef) = res["body"], res["frame"]
    if eb is None and ef is None and isinstance(gb, dict) and isinstance(gf, dict):
        for k in set(gb) | set(gf):
            if k == "meter_datetime":
                continue
            if k not in gb or k not in gf or gb[k] != gf[k]:
                ctx.violation(f"{prop}:frame-body-disagree:{category(k)}", f"{case.vendor} {case.layout}: field {k}: body {gb.get(k)!r:.50} vs frame {gf.get(k)!r:.50}", wit)
                ok = False
    return ok


def _plain(expect: dict) -> dict:
    out = {}
    for k, (kind, v) in expect.items():
        out[k] = [kind, str(v) if kind == "approx" else v]
    return out


def replay_case(prop: str, case: dict, ctx) -> None:
    """Re-run a recorded witness: expectations are stored in plain form."""
    from fractions import Fraction

    def unplain(d):
        out = {}
        for k, (kind, v) in d.items():
            out[k] = (kind, Fraction(v) if kind == "approx" else v)
        return out

    c = dlms_gen.Case(case["vendor"], case["layout"], case["body"], case["frame"], unplain(case["expect_body"]), unplain(case["expect_frame"]))
    check_case(prop, c, ctx)
