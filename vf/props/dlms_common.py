"""Shared driver of C07 / C08 / C09 / C10: run a generated list through a vendor decoder and compare."""
from __future__ import annotations

import importlib

from vf.gen import dlms_gen
from vf.mon import p1_mon


_cases = 0
_buffers: dict = {}


def category(field: str) -> str:
    if field.startswith("current"):
        return "current"
    if field.startswith("voltage"):
        return "voltage"
    if field.endswith("_total"):
        return "energy"
    if "power" in field:
        return "power"
    if field == "meter_datetime":
        return "clock"
    if field == "meter_manufacturer":
        return "manufacturer"
    if field in ("list_ver_id", "meter_id", "meter_type"):
        return "text"
    return "other"


def sig_for(prop: str, default: str, problem: str) -> str:
    """One signature per mechanism where the difference itself names one (so that a listed finding covers that mechanism and nothing else)."""
    if problem.startswith(dlms_gen.TRAILING_NUL):
        return f"{prop}:text:{dlms_gen.TRAILING_NUL}"
    return default


def decode_both(vendor: str, case):
    mod = importlib.import_module(f"han.{vendor}")
    out = {}
    for form, fn, data in (("body", mod.decode_notification_body, case.body), ("frame", mod.decode_frame_content, case.frame)):
        try:
            out[form] = (fn(data), None)
        except Exception as ex:
            out[form] = (None, ex)
    return out


_previous = {}


def _rejected_first(case, ctx) -> None:
    """Every third case is preceded by damaged relatives of the previous message of the same meter (an element of another type at a
    register / clock position, octets changed, inserted, removed, the list cut short): whatever the decoder does with them - most
    make it raise half-way - must leave no trace in the decode that follows."""
    import random

    from vf.gen import pool

    prev = _previous.get(case.vendor)
    _previous[case.vendor] = case
    if prev is None or _cases % 3 != 1:
        return
    rng = random.Random(_cases)
    mod = importlib.import_module(f"han.{case.vendor}")
    for k in range(6):
        # (the last two are damaged copies of the very message that is decoded next: line noise first, then the intact retransmission)
        which = prev if k < 4 else case
        src = which.body if k % 2 == 0 else which.frame
        if k >= 4:
            junk = src[: rng.randrange(max(1, len(src) - 12), len(src))] if rng.random() < 0.5 else src[:-1] + bytes((src[-1] ^ 0x55,)) + b"\x00"
            try:
                (mod.decode_notification_body if k % 2 == 0 else mod.decode_frame_content)(junk)
            except Exception:
                pass
            ctx.count("damaged_relatives_decoded_before_a_case")
            continue
        if k < 2:
            # a well-formed value of another type where a register or the clock is expected: the list still parses, normalising it may not
            b = bytearray(src)
            idx = [i for i in range(len(b) - 5) if b[i] == 0x06] + [i for i in range(len(b) - 13) if b[i] == 0x09 and b[i + 1] == 0x0C]
            if idx:
                i = rng.choice(idx)
                width = 5 if b[i] == 0x06 else 14
                b[i : i + width] = rng.choice((b"\x09\x03abc", b"\x0a\x02xy", b"\x06\x00\x00\x00\x07", b"\x12\x00\x07", b"\x09\x00"))
            junk = bytes(b)
        else:
            junk = pool.mutate(rng, src)[0]
        try:
            (mod.decode_notification_body if k % 2 == 0 else mod.decode_frame_content)(junk)
        except Exception:
            pass
        ctx.count("damaged_relatives_decoded_before_a_case")


def check_case(prop: str, case, ctx, extra_tag: str = "") -> bool:
    """Returns True when every compared field agreed."""
    _rejected_first(case, ctx)
    res = decode_both(case.vendor, case)
    ok = True
    wit = {"vendor": case.vendor, "layout": case.layout, "body": case.body, "frame": case.frame,
           "expect_body": _plain(case.expect_body), "expect_frame": _plain(case.expect_frame)}
    for form, expect in (("body", case.expect_body), ("frame", case.expect_frame)):
        got, ex = res[form]
        if ex is not None:
            ctx.violation(f"{prop}:{form}:exception:{p1_mon.where(ex)}", f"{case.vendor} {case.layout} {form}: decoder raised {ex!r:.200}", wit)
            ok = False
            continue
        for fld, problem in dlms_gen.compare_dict(got, expect):
            kind = "missing-key" if problem == "missing" else "unexpected-key" if problem.startswith("unexpected") else "value"
            ctx.violation(sig_for(prop, f"{prop}:{form}:{kind}:{category(fld)}{extra_tag}", problem), f"{case.vendor} {case.layout} {form}: {fld}: {problem}", wit)
            ok = False
        ctx.count(f"fields_compared_{form}", len(expect))
    # decoding is a function of the octets: wreck the dictionaries that were returned, decode the same octets again, compare again
    for form in ("body", "frame"):
        got, ex = res[form]
        if isinstance(got, dict):
            got.clear()
            got["meter_manufacturer"] = "wrecked by the caller"
    res2 = decode_both(case.vendor, case)
    for form, expect in (("body", case.expect_body), ("frame", case.expect_frame)):
        got, ex = res2[form]
        if ex is None and res[form][1] is None:
            for fld, problem in dlms_gen.compare_dict(got, expect):
                ctx.violation(sig_for(prop, f"{prop}:{form}:second-decode-differs", problem), f"{case.vendor} {case.layout} {form}: decoding the same octets again after the caller changed the first result: {fld}: {problem}", wit)
                ok = False
                break
    res = res2
    # the public two-step API: parse once, normalise the same parsed object twice and through both entry points
    mod = importlib.import_module(f"han.{case.vendor}")
    if all(hasattr(mod, n) for n in ("LlcPdu", "normalize_parsed_frame", "normalize_parsed_notification")):
        try:
            parsed = mod.LlcPdu.parse(case.frame)
            first = mod.normalize_parsed_frame(parsed)
            second = mod.normalize_parsed_frame(parsed)
            inner = mod.normalize_parsed_notification(parsed.information.notification_body)
        except Exception as ex:
            ctx.violation(f"{prop}:two-step:exception:{p1_mon.where(ex)}", f"{case.vendor} {case.layout}: parse + normalise raised {ex!r:.160}", wit)
            ok = False
        else:
            ctx.count("two_step_normalisations")
            for label, got, expect in (("first", first, case.expect_frame), ("second", second, case.expect_frame), ("body-of-frame", inner, case.expect_body)):
                for fld, problem in dlms_gen.compare_dict(got, expect):
                    ctx.violation(sig_for(prop, f"{prop}:two-step:{label}-normalisation-differs", problem), f"{case.vendor} {case.layout}: normalising the parsed object ({label}): {fld}: {problem}", wit)
                    ok = False
                    break
    # one long-lived receive buffer per message length, refilled in place and handed to the decoder again (the same object, other octets)
    for form, data, expect in (("body", case.body, case.expect_body), ("frame", case.frame, case.expect_frame)):
        buf = _buffers.get((case.vendor, form, len(data)))
        if buf is None:
            _buffers[(case.vendor, form, len(data))] = bytearray(data)
            if len(_buffers) > 400:
                _buffers.clear()
            continue
        mod2 = importlib.import_module(f"han.{case.vendor}")
        fn2 = mod2.decode_notification_body if form == "body" else mod2.decode_frame_content
        try:
            fn2(buf)  # the message the buffer still holds, decoded from this very object ...
        except Exception:
            pass
        buf[:] = data  # ... then the buffer is refilled and handed over again, as the next call
        try:
            got = fn2(buf)
        except Exception:
            ctx.count("reused_buffer_decodes_that_raised(not judged)")
            continue
        ctx.count("decodes_from_a_refilled_buffer_object")
        if res[form][1] is None:
            for fld, problem in dlms_gen.compare_dict(got, expect):
                ctx.violation(sig_for(prop, f"{prop}:{form}:refilled-buffer-decodes-to-earlier-values", problem), f"{case.vendor} {case.layout} {form}: decoded from a bytearray that held another message of the same length before: {fld}: {problem}", wit)
                ok = False
                break
    # the application's decimal context (precision, rounding) is not the library's business: every fifth case is decoded again under one
    global _cases
    _cases += 1
    if _cases % 5 == 0:
        import decimal

        prec = (3, 6, 9, 4, 28)[(_cases // 5) % 5]
        # (the fifth variant keeps the default precision and switches on the strict mode against mixing float and Decimal)
        traps = [decimal.FloatOperation, decimal.InvalidOperation, decimal.DivisionByZero, decimal.Overflow] if prec == 28 else None
        with decimal.localcontext(decimal.Context(prec=prec, rounding=(decimal.ROUND_DOWN, decimal.ROUND_HALF_EVEN)[(_cases // 20) % 2], traps=traps)):
            res3 = decode_both(case.vendor, case)
        ctx.count("cases_decoded_again_under_a_low_precision_decimal_context")
        for form, expect in (("body", case.expect_body), ("frame", case.expect_frame)):
            got, ex = res3[form]
            if res[form][1] is not None:
                continue
            if ex is not None:
                ctx.violation(f"{prop}:{form}:depends-on-the-ambient-decimal-context", f"{case.vendor} {case.layout} {form}: raised {ex!r:.120} under decimal precision {prec} (decodes in the default context)", wit)
                ok = False
                continue
            for fld, problem in dlms_gen.compare_dict(got, expect):
                if not list(dlms_gen.compare_dict({fld: res[form][0].get(fld)} if isinstance(res[form][0], dict) and fld in res[form][0] else {}, {fld: expect[fld]} if fld in expect else {})):
                    ctx.violation(f"{prop}:{form}:depends-on-the-ambient-decimal-context", f"{case.vendor} {case.layout} {form}: under decimal precision {prec}: {fld}: {problem} (right in the default context)", wit)
                    ok = False
                    break
    # frame vs body on every field except the clock
    (gb, eb), (gf, ef) = res["body"], res["frame"]
    if eb is None and ef is None and isinstance(gb, dict) and isinstance(gf, dict):
        for k in set(gb) | set(gf):
            if k == "meter_datetime":
                continue
            if k not in gb or k not in gf or gb[k] != gf[k]:
                ctx.violation(f"{prop}:frame-body-disagree:{category(k)}", f"{case.vendor} {case.layout}: field {k}: body {gb.get(k)!r:.50} vs frame {gf.get(k)!r:.50}", wit)
                ok = False
    return ok


def _plain(expect: dict) -> dict:
    out = {}
    for k, (kind, v) in expect.items():
        out[k] = [kind, str(v) if kind == "approx" else v]
    return out


def replay_case(prop: str, case: dict, ctx) -> None:
    """Re-run a recorded witness: expectations are stored in plain form."""
    from fractions import Fraction

    def unplain(d):
        out = {}
        for k, (kind, v) in d.items():
            out[k] = (kind, Fraction(v) if kind == "approx" else v)
        return out

    c = dlms_gen.Case(case["vendor"], case["layout"], case["body"], case["frame"], unplain(case["expect_body"]), unplain(case["expect_frame"]))
    check_case(prop, c, ctx)


def run_threads(prop: str, gen, ctx, n_threads: int = 4, n_cases: int = 60) -> None:
    """The decoders are plain functions: decoding in several threads at once must give every thread its own message's values."""
    import sys
    import threading

    rng = ctx.rng(prop, "threads", ctx.counters.get("decodes_in_concurrent_threads", 0))
    gens = gen if isinstance(gen, (list, tuple)) else [gen]
    # with several generators every thread sticks to one kind of message (e.g. one thread per meter), which is how an application
    # serving several meters looks and what makes state shared between the kinds visible
    work = [[gens[t % len(gens)](rng) for _ in range(n_cases)] for t in range(n_threads)]
    problems: list = []
    barrier = threading.Barrier(n_threads)
    old = sys.getswitchinterval()

    def worker(cases):
        barrier.wait()
        for case in cases:
            res = decode_both(case.vendor, case)
            for form, expect in (("body", case.expect_body), ("frame", case.expect_frame)):
                got, ex = res[form]
                if ex is not None:
                    problems.append((form, f"raised {ex!r:.120}", case))
                    continue
                for fld, problem in dlms_gen.compare_dict(got, expect):
                    problems.append((form, f"{fld}: {problem}", case))
                    break

    sys.setswitchinterval(1e-6)
    try:
        threads = [threading.Thread(target=worker, args=(w,)) for w in work]
        for t in threads:
            t.start()
        for t in threads:
            t.join()
    finally:
        sys.setswitchinterval(old)
    ctx.count("decodes_in_concurrent_threads", n_threads * n_cases * 2)
    ctx.case(f"{prop}threads", True, n_threads * n_cases)
    for form, msg, case in problems[:3]:
        wit = {"vendor": case.vendor, "layout": case.layout, "body": case.body, "frame": case.frame, "expect_body": _plain(case.expect_body), "expect_frame": _plain(case.expect_frame), "threads": True}
        ctx.violation(sig_for(prop, f"{prop}:{form}:differs-under-concurrent-threads", msg.split(": ", 1)[-1]), f"{case.vendor} {case.layout} {form} decoded in {n_threads} threads at once: {msg} (the same octets decode correctly in one thread)", wit)


def digest_twins(prop: str, vendor: str, ctx, rounds: int = 6) -> None:
    """Pairs of different lists of equal length that CRC-32 / Adler-32 cannot tell apart (vf/gen/collide.py), decoded one after the
    other, body and frame: each must come back with its own registers (a memo keyed by a cheap digest returns the first one's)."""
    import struct

    from vf.gen import collide
    from vf.ref import cosem_enc as ce
    from vf.ref import names

    mod = importlib.import_module(f"han.{vendor}")
    rng = ctx.rng(prop, "digest-twins")
    if vendor == "aidon":
        c1, c2 = (1, 0, 1, 7, 0, 255), (1, 0, 2, 7, 0, 255)
        build = lambda fr: ce.aidon_body([ce.aidon_element(c1, "u32", struct.unpack(">I", fr[:4])[0], 0, ce.UNIT_W), ce.aidon_element(c2, "u32", struct.unpack(">I", fr[4:])[0], 0, ce.UNIT_W)])
        invoke = None
    elif vendor == "kaifa":
        c1, c2 = (1, 0, 1, 7, 0, 255), (1, 0, 2, 7, 0, 255)
        build = lambda fr: ce.kaifa_obis_body([(c1, ce.u32(struct.unpack(">I", fr[:4])[0])), (c2, ce.u32(struct.unpack(">I", fr[4:])[0]))])
        invoke = None
    else:
        c1, c2 = (1, 1, 1, 7, 0, 255), (1, 1, 2, 7, 0, 255)
        build = lambda fr: ce.kamstrup_body("Kamstrup_V0001", [(c1, ce.u32(struct.unpack(">I", fr[:4])[0])), (c2, ce.u32(struct.unpack(">I", fr[4:])[0]))])
        invoke = b"\x00\x00\x00\x00"
    n1, n2 = names.name_of(c1), names.name_of(c2)
    dt12 = ce.datetime12(2026, 9, 28, 1, 12, 0, 0, None, None, 0)
    for k in range(rounds):
        free = rng.randbytes(8)
        if k % 2 == 0:
            other, kind = collide.linear_twin(free, rng, build), "crc32"
        else:
            kind = "adler32"
            t = collide.adler_twin(free[:4], rng)
            other = None if t is None else t + free[4:]
            if other is not None and collide.adler32(build(other)) != collide.adler32(build(free)):
                other = None
        if other is None:
            ctx.count("digest_twin_not_available")
            continue
        ctx.count(f"digest_colliding_list_pairs_{kind}")
        for fr in (free, other, free):
            a, b = struct.unpack(">I", fr[:4])[0], struct.unpack(">I", fr[4:])[0]
            body = build(fr)
            frame = ce.apdu(body, dt12, True, invoke) if invoke is not None else ce.apdu(body, dt12, True)
            for form, fn, data in (("body", mod.decode_notification_body, body), ("frame", mod.decode_frame_content, frame)):
                wit = {"vendor": vendor, "layout": f"{kind}-twin", "body": body, "frame": frame, "expect_body": {n1: ["int", a], n2: ["int", b]}, "expect_frame": {n1: ["int", a], n2: ["int", b]}}
                try:
                    got = fn(data)
                except Exception as ex:
                    ctx.violation(f"{prop}:{form}:exception:{p1_mon.where(ex)}", f"{vendor} two-register list: decoder raised {ex!r:.160}", wit)
                    continue
                if got.get(n1) != a or got.get(n2) != b:
                    ctx.violation(f"{prop}:{form}:value-of-another-list", f"{vendor} list with {n1}={a}, {n2}={b} decoded to {got.get(n1)!r}, {got.get(n2)!r} (a list of the same length and {kind} was decoded just before)", wit)
        ctx.case(f"{prop}twin{k}", True, 6)
