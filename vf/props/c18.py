"""C18 - Reconnect pacing follows capped exponential back-off and the loss breaker.

(1) Strategy object: every failure()/reset() word of length 14 (every prefix
checked) x several max_delay values, plus random long words, against
vf/ref/backoff_ref.py.
(2) Manager: attempt-outcome words and loss patterns on the virtual-time loop;
trace checker over the recorded factory calls: gap between a failure / loss
and the next attempt_start.
"""
from __future__ import annotations

import itertools

from vf.mon import clock, vloop
from vf.ref import backoff_ref

ID = "C18"
LEVEL = "fault_enumeration"
RULE = (
    "strategy: all 2^L words over {failure, reset} (L=14 quick, 17 thorough), current_delay_sec checked after every prefix, for max_delay in {1,2,3,5,60,3600}; random words up to 200 "
    "with random max_delay 1..3600. manager: all words over {ok, fail} up to length 8 (thorough; 6 quick) x connection lifetime patterns {1,3,7,20 s mixes} x (threshold, sleep, max_delay) "
    "configurations on the virtual loop (after the word every attempt fails); oracle on every gap: after the n-th consecutive failure min(2^(n-1),max_delay) <= gap <= max(that, sleep)+0.25 s slack; "
    "after a loss that follows the previous loss within the threshold gap >= sleep; all words up to length 3 (4 thorough) over {ok, fail, slow ok, slow fail} containing a slow attempt (2.5 s); 0.05 s after every success the strategy object must report 0; every gap <= max(back-off, sleep)+0.25. "
    "evaluations = words/scenarios executed; distinct non-trivial = distinct words/scenarios (by construction for the enumerated parts) containing >= 1 failure."
)
ASSUMPTIONS = [
    "the manager's wall clock (datetime.utcnow in han.meter_connection) is replaced by the virtual clock from the harness; the virtual clock starts at one of 6 epochs (DST switches, leap day, month and year ends) and failing attempts raise 9 different exception types in rotation; a calibration scenario verifies that the substitution took effect, otherwise the breaker oracle is skipped (inconclusive)",
    "slow attempts take 2.5 virtual seconds; 'failure time' is when the factory raised",
]
WATCHDOG_S = {"quick": 900, "thorough": 7200}
MAX_DELAYS = (1, 2, 3, 5, 60, 3600)
EPS = 1e-4  # lower bounds are exact on a virtual clock (log times are rounded to 1e-6)
SLACK = 0.25  # 'scheduling slack' granted to upper bounds (an implementation may poll)


def plan(tier, seed):
    L = 14 if tier == "quick" else 17
    shards = [{"kind": "strategy_exh", "L": L, "mod": 8, "rem": k} for k in range(8)]
    shards += [{"kind": "strategy_random", "n": 400 if tier == "quick" else 20000} for _ in range(2)]
    wl = 8 if tier == "quick" else 9
    shards += [{"kind": "manager", "maxlen": wl, "mod": 8, "rem": k, "full": tier != "quick"} for k in range(8)]
    shards.append({"kind": "calibration"})
    shards.append({"kind": "dst"})
    shards.append({"kind": "restart"})
    return shards


def check_word(word, max_delay, ctx, case_extra=None) -> None:
    from han.meter_connection import ExponentialBackOff

    b = ExponentialBackOff()
    b.max_delay = max_delay
    n = 0
    if b.current_delay_sec != 0:
        ctx.violation("C18:strategy:initial-delay", f"fresh strategy reports {b.current_delay_sec}", {"word": "", "max_delay": max_delay})
    for i, op in enumerate(word):
        if (i + len(word)) % 3 == 0:
            clock.jump((0.5, 130.0, 7300.0)[(i + max_delay) % 3])  # real time passes between two calls: the sequence decides, not the clock
        if op:
            b.failure()
            n += 1
        else:
            b.reset()
            n = 0
        got = b.current_delay_sec
        want = backoff_ref.delay(n, max_delay)
        if got != want:
            kind = "cap" if want == max_delay else "reset" if n == 0 else "growth"
            ctx.violation(f"C18:strategy:{kind}", f"after {''.join('FR'[1 - o] for o in word[: i + 1])} (max_delay {max_delay}): current_delay_sec={got!r}, expected {want}",
                          {"word": [int(o) for o in word[: i + 1]], "max_delay": max_delay})
            return


LIFETIME_PATTERNS = ([1.0], [3.0, 1.0], [7.0, 3.0, 3.0], [20.0, 1.0, 1.0, 7.0], [0.5, 0.5, 0.5], [4.9, 5.1, 5.0],
                     # losses at fractional instants, less than the threshold apart although their whole seconds differ by the threshold
                     [0.9, 4.3, 4.3], [2.7, 4.4, 0.95], [0.95, 4.1, 4.95])
CONFIGS = (
    {},
    {"connection_lost_back_off_threshold": 2, "connection_lost_back_off_sleep_sec": 9, "max_delay": 4},
    {"connection_lost_back_off_threshold": 10, "connection_lost_back_off_sleep_sec": 3, "max_delay": 60},
    # (values a configuration file may well carry: fractions of a second, a cap below the breaker's sleep)
    {"connection_lost_back_off_threshold": 2.5, "connection_lost_back_off_sleep_sec": 1.5, "max_delay": 3},
)


def judge_manager(events, cfg, ctx, case) -> int:
    """Trace checker over one scenario's event log. Returns the number of gaps judged."""
    thr = cfg.get("connection_lost_back_off_threshold", 5)
    slp = cfg.get("connection_lost_back_off_sleep_sec", 5)
    mx = cfg.get("max_delay", 60)
    n_fail = 0
    last_loss = None
    pending = None  # (kind, time, lower, upper)
    judged = 0
    for ev in events:
        t, _it, kind = ev[0], ev[1], ev[2]
        if kind == "attempt_start":
            if pending is not None:
                pk, pt, lo, hi = pending
                gap = t - pt
                judged += 1
                if gap < lo - EPS:
                    which = "backoff" if pk == "fail" else "breaker"
                    ctx.violation(f"C18:manager:too-early:{which}", f"attempt {ev[3]} started {gap:.3f}s after the {pk} at t={pt}, lower bound {lo}s (cfg {cfg})", case)
                if gap > hi + SLACK:
                    ctx.violation(f"C18:manager:too-late:{'backoff' if pk == 'fail' else 'after-loss'}", f"attempt {ev[3]} started {gap:.3f}s after the {pk} at t={pt}, upper bound {hi}s (cfg {cfg})", case)
                ctx.maximum("max_gap_seen", gap)
                pending = None
        elif kind == "attempt_fail":
            n_fail += 1
            lb = backoff_ref.delay(n_fail, mx)
            pending = ("fail", t, lb, max(lb, slp))
            ctx.count(f"failures_n{min(n_fail, 8)}")
        elif kind == "attempt_ok":
            n_fail = 0
        elif kind == "backoff_delay_while_connected":
            ctx.count("backoff_probes_while_connected")
            if ev[4] != 0:
                ctx.violation("C18:manager:success-does-not-reset-backoff", f"0.05 s after attempt {ev[3]} succeeded the strategy object still reports a delay of {ev[4]} s (cfg {cfg})", case)
        elif kind == "lost":
            within = last_loss is not None and (t - last_loss) < thr
            if last_loss is not None and abs((t - last_loss) - thr) < 1e-6:
                within = None  # exactly on the threshold: either reading is acceptable
            last_loss = t
            lb = slp if within else 0
            pending = ("loss", t, lb, max(backoff_ref.delay(n_fail, mx), slp))
            ctx.count("losses_within_threshold" if within else "losses_outside_threshold")
        elif kind == "close_called" and pending is not None:
            # the application stopped the manager: nothing is due any more, but whenever the same manager is started again the pause
            # that was running still has to be honoured
            pending = (pending[0], pending[1], pending[2], float("inf"))
        elif kind == "horizon" and pending is not None:
            pk, pt, lo, hi = pending
            if t - pt > hi + SLACK:
                ctx.violation(f"C18:manager:too-late:{'backoff' if pk == 'fail' else 'after-loss'}", f"no attempt at all within {t - pt:.1f}s after the {pk} at t={pt} (upper bound {hi}s, cfg {cfg})", case)
                judged += 1
    return judged


def run_restart_scenarios(ctx) -> None:
    """close() in the middle of a back-off / breaker pause, connect_loop() again on the same manager shortly afterwards: the first
    attempt of the new loop still comes no sooner than the pause allows."""
    n = 0
    for cfg in CONFIGS:
        for word, lifetimes in (([0], []), ([0, 0], []), ([0, 0, 0], []), ([0, 0, 0, 0, 0], []), ([1, 0, 0], [2.0]), ([1, 1], [1.0, 1.0]), ([1, 1, 0], [0.5, 0.5]), ([0, 1, 1], [1.0, 1.0])):
            base = run_manager_scenario(word, lifetimes, cfg, ctx)
            evs = base["events"]
            marks = [e for e in evs if e[2] in ("attempt_fail", "lost")]
            starts = [e[0] for e in evs if e[2] == "attempt_start"]
            if not marks:
                continue
            # the last failure / loss of the scripted word, and the attempt that followed it in the undisturbed run
            k = len([o for o in word])
            scripted = [e for e in marks if (e[2] == "attempt_fail" and e[3] < k) or e[2] == "lost"]
            if not scripted:
                continue
            tm = scripted[-1][0]
            nxt = min((t for t in starts if t > tm + 1e-9), default=None)
            if nxt is None or nxt - tm < 0.5:
                continue
            for frac in (0.1, 0.5, 0.9):
                for restart_after in (0.0, 0.05, (nxt - tm) * 0.2):
                    res = run_manager_scenario(word, lifetimes, cfg, ctx, close_at=("time", tm + (nxt - tm) * frac), restart_after=restart_after)
                    case = {"word": list(word), "lifetimes": list(lifetimes), "cfg": cfg, "close_at": tm + (nxt - tm) * frac, "restart_after": restart_after, "restart": True}
                    if res["error"]:
                        ctx.violation("C18:manager:scenario-error", f"restart scenario {word}: {res['error']}", case)
                        continue
                    kinds = [e[2] for e in res["events"]]
                    if "loop_restarted" not in kinds:
                        ctx.count("restart_scenarios_in_which_the_loop_did_not_return(C17)")
                        continue
                    judge_manager(res["events"], cfg, ctx, case)
                    ctx.case(repr(("restart", word, lifetimes, sorted(cfg.items()), frac, restart_after)), True)
                    n += 1
    ctx.count("restart_after_close_scenarios", n)


def run_manager_scenario(word, lifetimes, cfg, ctx, shim=True, close_at=None, restart_after=None):
    outcomes = [o if isinstance(o, str) else ("ok" if o else "fail") for o in word]
    word = [1 if str(o).endswith("ok") or o == 1 else 0 for o in word]
    lts = []
    li = 0
    for o in word:
        if o:
            lts.append(lifetimes[li % len(lifetimes)])
            li += 1
        else:
            lts.append(None)
    horizon = 30 + sum(l or 0 for l in lts) + sum(min(2 ** i, cfg.get("max_delay", 60)) for i in range(len(word) + 3)) + 12 * len(word)
    epoch = vloop.EPOCHS[(len(word) * 7 + sum(word)) % len(vloop.EPOCHS)]
    res = vloop.run_scenario(outcomes, lts, horizon=min(horizon, 2000), config=cfg, default_outcome="fail", use_clock_shim=shim, track_tasks=False, epoch=epoch,
                             close_at=close_at, restart_after=restart_after, after_close=0.0 if restart_after is not None else 200.0)
    return res


def run(shard, ctx):
    try:
        _run(shard, ctx)
    finally:
        vloop.report(ctx)


def _run(shard, ctx):
    kind = shard["kind"]
    if kind == "strategy_exh":
        L = shard["L"]
        n = 0
        for idx, word in enumerate(itertools.product((1, 0), repeat=L)):
            if idx % shard["mod"] != shard["rem"]:
                continue
            for md in MAX_DELAYS:
                check_word(word, md, ctx)
                n += 1
        ctx.enumerated(n, n - len(MAX_DELAYS) * (1 if shard["rem"] == (2 ** L - 1) % shard["mod"] else 0))
        ctx.count("strategy_words_enumerated", n)
        ctx.sample({"strategy_word": "FFRFFFFFFFRF"[:L], "max_delays": list(MAX_DELAYS)})
    elif kind == "strategy_random":
        rng = ctx.rng("c18s")
        for i in range(shard["n"]):
            word = tuple(1 if rng.random() < rng.choice((0.5, 0.9, 0.97)) else 0 for _ in range(rng.randint(1, 200)))
            md = rng.choice((rng.randint(1, 3600), rng.randint(1, 70)))
            check_word(word, md, ctx)
            ctx.case(repr((word, md)), any(word))
        ctx.count("strategy_random_words", shard["n"])
    elif kind == "dst":
        # two losses one second apart on either side of a daylight-saving switch, in time zones that have one: the breaker
        # compares two readings of a UTC clock, so the civil-time jump must not matter
        import datetime as _dt
        import os
        import time as _time

        n = 0
        for tz in ("Europe/Oslo", "America/New_York", "Australia/Sydney", "UTC"):
            os.environ["TZ"] = tz
            _time.tzset()
            # the switch days of 2026 in these zones, every full hour from 00:00 to 04:00 and the UTC instants of the switches: the clock
            # reading is a naive UTC value, and code that (wrongly) reads it as local time trips over the repeated / skipped hour
            days = (_dt.date(2026, 10, 25), _dt.date(2026, 3, 29), _dt.date(2026, 11, 1), _dt.date(2026, 3, 8), _dt.date(2026, 4, 5), _dt.date(2026, 10, 4), _dt.date(2027, 1, 1))
            switches = [_dt.datetime.combine(day, _dt.time(hh)) for day in days for hh in (0, 1, 2, 3, 4)] + [_dt.datetime(2026, 11, 1, 6), _dt.datetime(2026, 3, 8, 7), _dt.datetime(2026, 4, 4, 16), _dt.datetime(2026, 10, 3, 16)]
            for switch in switches:
                for lead in (1.5,):
                    epoch = switch - _dt.timedelta(seconds=lead)
                    word = ("ok", "ok", "fail", "ok", "ok", "ok")
                    lifetimes = [1.0, 1.0, None, 1.0, 1.0, None]
                    res = vloop.run_scenario(list(word), lifetimes, horizon=120.0, config={}, default_outcome="fail", track_tasks=False, epoch=epoch)
                    case = {"word": list(word), "lifetimes": [1.0], "cfg": {}, "tz": tz, "epoch": epoch.isoformat()}
                    ctx.count("gaps_judged", judge_manager(res["events"], {}, ctx, case))
                    ctx.count("dst_scenarios")
                    ctx.seen("time_zones", tz)
                    n += 1
        ctx.enumerated(n, n)
    elif kind == "restart":
        run_restart_scenarios(ctx)
    elif kind == "calibration":
        # two losses 100 virtual seconds apart with threshold 5: with a working clock substitution the second reconnect is immediate
        res = vloop.run_scenario(["ok", "ok", "ok"], [100.0, 100.0, None], horizon=400, config={}, default_outcome="ok")
        starts = [e[0] for e in res["events"] if e[2] == "attempt_start"]
        ctx.count("calibration_shim_calls", res["shim_calls"])
        ok = res["shim_calls"] >= 2 and len(starts) >= 3 and abs(starts[2] - 200.0) < SLACK
        ctx.count("calibration_ok", 1 if ok else 0)
        ctx.case("calibration", True)
        if not ok:
            ctx.note_inconclusive(f"virtual clock substitution did not take effect (shim calls {res['shim_calls']}, attempt starts {starts[:4]}); breaker timing cannot be judged")
        ctx.sample({"calibration_events": [list(e) for e in res["events"][:12]]})
    else:
        idx = 0
        n = 0
        rng = ctx.rng("c18m")
        for length in range(1, shard["maxlen"] + 1):
            for word in itertools.product((1, 0), repeat=length):
                idx += 1
                if idx % shard["mod"] != shard["rem"]:
                    continue
                if shard.get("full"):
                    combos = [(lt, cf) for lt in LIFETIME_PATTERNS for cf in CONFIGS] if any(word) else [(LIFETIME_PATTERNS[0], cf) for cf in CONFIGS]
                else:
                    combos = [(LIFETIME_PATTERNS[idx % len(LIFETIME_PATTERNS)], CONFIGS[(idx // 7) % len(CONFIGS)])]
                for lifetimes, cfg in combos:
                    res = run_manager_scenario(word, lifetimes, cfg, ctx)
                    case = {"word": list(word), "lifetimes": lifetimes, "cfg": cfg}
                    if res["error"]:
                        ctx.violation("C18:manager:scenario-error", f"scenario ended with {res['error']}", case)
                    judged = judge_manager(res["events"], cfg, ctx, case)
                    ctx.count("gaps_judged", judged)
                    ctx.count("manager_scenarios")
                    n += 1
                    if n <= 1:
                        ctx.sample({"word": "".join("ok " if o else "fail " for o in word), "lifetimes": lifetimes, "cfg": cfg, "events": [list(e) for e in res["events"][:14]]})
        ctx.enumerated(n, n)
        # slow attempts: the back-off counts from the moment the attempt FAILED, however long the attempt took
        if shard["rem"] == 0:
            m = 0
            for length in range(1, 5 if shard.get("full") else 4):
                for word in itertools.product(("ok", "fail", "slow_ok", "slow_fail"), repeat=length):
                    if not any(o.startswith("slow") for o in word):
                        continue
                    cfg = CONFIGS[m % len(CONFIGS)]
                    res = run_manager_scenario(word, LIFETIME_PATTERNS[m % len(LIFETIME_PATTERNS)], cfg, ctx)
                    case = {"word": list(word), "lifetimes": LIFETIME_PATTERNS[m % len(LIFETIME_PATTERNS)], "cfg": cfg}
                    ctx.count("gaps_judged", judge_manager(res["events"], cfg, ctx, case))
                    ctx.count("manager_scenarios_with_slow_attempts")
                    m += 1
            ctx.enumerated(m, m)
            # dead on arrival: connection_lost() has already run when the factory returns - still a connection that was made and lost
            d = 0
            for length in range(1, 5):
                for word in itertools.product(("ok", "fail", "ok_dead"), repeat=length):
                    if "ok_dead" not in word:
                        continue
                    cfg = CONFIGS[d % len(CONFIGS)]
                    lifetimes = LIFETIME_PATTERNS[d % len(LIFETIME_PATTERNS)]
                    res = run_manager_scenario(word, lifetimes, cfg, ctx)
                    case = {"word": list(word), "lifetimes": lifetimes, "cfg": cfg}
                    ctx.count("gaps_judged", judge_manager(res["events"], cfg, ctx, case))
                    ctx.count("manager_scenarios_with_a_connection_that_is_dead_on_arrival")
                    d += 1
            ctx.enumerated(d, d)


def replay(case, ctx):
    if "tz" in case:
        import datetime as _dt
        import os
        import time as _time

        os.environ["TZ"] = case["tz"]
        _time.tzset()
        res = vloop.run_scenario(case["word"], [1.0, 1.0, None, 1.0, 1.0, None], horizon=120.0, config={}, default_outcome="fail", track_tasks=False, epoch=_dt.datetime.fromisoformat(case["epoch"]))
        judge_manager(res["events"], {}, ctx, case)
        return
    if "lifetimes" in case:
        if case.get("restart"):
            res = run_manager_scenario(tuple(case["word"]), case["lifetimes"], case["cfg"], ctx, close_at=("time", case["close_at"]), restart_after=case["restart_after"])
            judge_manager(res["events"], case["cfg"], ctx, case)
            return
        res = run_manager_scenario(tuple(case["word"]), case["lifetimes"], case["cfg"], ctx)
        judge_manager(res["events"], case["cfg"], ctx, case)
    else:
        check_word(tuple(case["word"]), case["max_delay"], ctx)


def finalize(agg, tier):
    c = agg["counters"]
    L = 14 if tier == "quick" else 17
    reasons = []
    if c.get("strategy_words_enumerated", 0) != (2 ** L) * len(MAX_DELAYS):
        reasons.append(f"strategy enumeration incomplete: {c.get('strategy_words_enumerated', 0)} of {(2 ** L) * len(MAX_DELAYS)}")
    for k in ("gaps_judged", "losses_within_threshold", "losses_outside_threshold", "failures_n5", "calibration_ok", "backoff_probes_while_connected", "manager_scenarios_with_slow_attempts", "dst_scenarios", "restart_after_close_scenarios"):
        if c.get(k, 0) == 0:
            reasons.append(f"monitor never observed '{k}'")
    return {"exhaustive": not reasons, "exhaustive_scope": f"strategy: all failure/reset words of length {L} x 6 max_delay values; manager: all ok/fail words up to length {8 if tier == 'quick' else 9} (quick: lifetime pattern and configuration assigned round-robin; thorough: x all 6 lifetime patterns x 3 configurations)"}, reasons
