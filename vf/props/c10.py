"""C10 - COSEM date-time fields decode to the same instant the meter sent.

Monitor: minimal messages with a generated 12-octet date-time in each of the
eight syntactic places where a decoder accepts one; the decoded 'meter_datetime'
is compared field-wise (civil fields, microseconds, utcoffset or its absence) -
not with ==, which would accept a wrong offset that names the same instant.
"""
from __future__ import annotations

from vf.gen import dlms_gen
from vf.mon import p1_mon
from vf.ref import cosem_enc as ce

ID = "C10"
LEVEL = "exploration"
POSITIONS = (
    "apdu_tagged/kaifa_frame", "apdu_untagged/kaifa_frame", "apdu_tagged/kamstrup_frame", "apdu_untagged/kamstrup_frame",
    "aidon_clock_element", "kaifa_list_clock_element", "kaifa_se_clock_element", "kamstrup_clock_element",
)
RULE = (
    "case = (position, date-time): 8 positions (APDU header tagged/untagged in Kaifa and Kamstrup frames; clock element of Aidon list, Kaifa value list, Kaifa SE list, Kamstrup list); "
    "years {1,1999,2000,9999,random}, every month, month ends incl. 29 Feb, hour/minute/second boundaries, hundredths {FF,0,1,50,99,random}; the (status, deviation) pair is enumerated "
    "systematically: status = k mod 256, deviation cycles through 0x8000 and -720..720, so that all 256 status octets (quick) / all 256 x 1442 pairs (thorough) occur; day-of-week any octet; every 4th case adds a burst of date-times sharing the civil second whose (hundredths, deviation) digits are ambiguous when concatenated. "
    "evaluations = decoder calls; distinct non-trivial = distinct (position, 12 octets) with a specified deviation or hundredths or a status octet other than 0."
)
ASSUMPTIONS = ["12-octet layout per COSEM blue book 4.1.6.1 as emitted by vf/ref/cosem_enc.datetime12"]
WATCHDOG_S = {"quick": 900, "thorough": 7200}
N = {"quick": 2000, "thorough": 30000}
DEVIATIONS = [None] + list(range(-720, 721))


def plan(tier, seed):
    return [{"n": N[tier], "k0": i * N[tier]} for i in range(16)] + [{"kind": "threads", "n": 40, "k": k} for k in range(4 if tier == "quick" else 16)] + [{"kind": "solo", "n": 160 if tier == "quick" else 4000}, {"kind": "grid"}]


_checks = 0


def _km_type(rng) -> list:
    """Sometimes the list names its meter type (current-transformer type 685... or not) before the clock: a neighbour, not part of it."""
    r = rng.random()
    if r < 0.5:
        return []
    return [((1, 1, 96, 1, 1, 255), ce.visible_string(rng.choice(("6851131BN243101040", "6841121BN243101040", "685", "6861111"))))]


def _build(position: str, dt12: bytes, rng, spec, holder: dict):
    """(vendor, form, message bytes); holder["inner_spec"] = the list's own clock element as the bare body must report it (None: the list has none)"""
    other12, other_spec = dlms_gen.gen_datetime(rng)
    tags: list = []
    holder["inner_spec"] = spec
    if position.endswith("kaifa_frame"):
        body = ce.kaifa_value_body([ce.u32(rng.randrange(2**32))])
        holder["inner_spec"] = None
        return "kaifa", "frame", ce.apdu(body, dt12, tagged=position.startswith("apdu_tagged"))
    if position.endswith("kamstrup_frame"):
        body = ce.kamstrup_body("Kamstrup_V0001", _km_type(rng) + [((1, 1, 1, 7, 0, 255), ce.u32(rng.randrange(2**32))), (dlms_gen.clock_code(rng, (0, 1, 1, 0, 0, 255), tags), ce.datetime_octets(other12))])
        holder["inner_spec"] = other_spec
        return "kamstrup", "frame", ce.apdu(body, dt12, tagged=position.startswith("apdu_tagged"), invoke=b"\x00\x00\x00\x00")
    if position == "aidon_clock_element":
        body = ce.aidon_body([ce.aidon_element(dlms_gen.clock_code(rng, (0, 0, 1, 0, 0, 255), tags), "datetime", dt12), ce.aidon_element((1, 0, 1, 7, 0, 255), "u32", 5, 0, ce.UNIT_W)])
        if rng.random() < 0.5:
            return "aidon", "body", body
        return "aidon", "frame", ce.apdu(body, rng.choice((None, other12)), tagged=rng.random() < 0.5)
    if position == "kaifa_list_clock_element":
        from vf.ref import names

        vals = []
        for name in names.KAIFA_LAYOUTS[rng.choice((14, 18))]:
            if name in names.KAIFA_STRING_FIELDS:
                vals.append(ce.octet_string(b"KFM_001"))
            elif name == "meter_datetime":
                vals.append(ce.datetime_octets(dt12))
            else:
                vals.append(ce.u32(rng.randrange(2**32)))
        body = ce.kaifa_value_body(vals)
        if rng.random() < 0.5:
            return "kaifa", "body", body
        if spec is not None and rng.random() < 0.5:
            # the APDU header clock names the same instant as the list clock, written with another deviation: the list clock still wins
            alt = dlms_gen.same_instant_other_deviation(rng, spec)
            if alt is not None:
                other12 = alt[0]
        return "kaifa", "frame", ce.apdu(body, other12, tagged=rng.random() < 0.5)
    if position == "kaifa_se_clock_element":
        body = ce.kaifa_obis_body([((1, 0, 1, 7, 0, 255), ce.u32(7)), (dlms_gen.clock_code(rng, (0, 0, 1, 0, 0, 255), tags), ce.datetime_octets(dt12))])
        if rng.random() < 0.5:
            return "kaifa", "body", body
        return "kaifa", "frame", ce.apdu(body, rng.choice((None, other12)), tagged=rng.random() < 0.5)
    pairs = _km_type(rng) + [(dlms_gen.clock_code(rng, (0, 1, 1, 0, 0, 255), tags), ce.datetime_octets(dt12)), ((1, 1, 1, 8, 0, 255), ce.u32(9))]
    body = ce.kamstrup_body("Kamstrup_V0001", pairs, [0] * (len(pairs) - 1) + [rng.choice((0, 0, 3)), 0])
    return "kamstrup", "body", body


def build(position: str, dt12: bytes, rng, spec=None):
    """(vendor, form, message bytes, spec of the list's own clock element or None)"""
    holder: dict = {}
    vendor, form, msg = _build(position, dt12, rng, spec, holder)
    return vendor, form, msg, holder.get("inner_spec")


def check(position, dt12, spec, rng, ctx) -> None:
    import importlib

    vendor, form, msg, inner_spec = build(position, dt12, rng, spec)
    mod = importlib.import_module(f"han.{vendor}")
    fn = mod.decode_notification_body if form == "body" else mod.decode_frame_content
    case = {"position": position, "dt12": dt12, "spec": spec, "vendor": vendor, "form": form, "message": msg}
    try:
        got = fn(msg)
    except Exception as ex:
        ctx.violation(f"C10:{position}:exception:{p1_mon.where(ex)}", f"date-time {dt12.hex()} at {position}: decoder raised {ex!r:.160}", case)
        return
    if "meter_datetime" not in got:
        ctx.violation(f"C10:{position}:no-clock", f"date-time {dt12.hex()} at {position}: no meter_datetime in result", case)
        return
    problem = dlms_gen.check_datetime(got["meter_datetime"], spec)
    if problem:
        what = "offset" if "utcoffset" in problem or "tzinfo" in problem else "civil-fields"
        ctx.violation(f"C10:{position}:{what}", f"date-time {dt12.hex()} at {position}: {problem}", case)
    global _checks
    _checks += 1
    if _checks % 5 == 0:
        # the application's decimal context (precision, rounding) is not the library's business
        import decimal

        prec = (6, 3, 9, 4)[(_checks // 5) % 4]
        try:
            with decimal.localcontext(decimal.Context(prec=prec)):
                got2 = fn(msg)
            p3 = "no meter_datetime" if "meter_datetime" not in got2 else dlms_gen.check_datetime(got2["meter_datetime"], spec)
        except Exception as ex:
            p3 = f"raised {ex!r:.100}"
        ctx.count("datetimes_decoded_again_under_a_low_precision_decimal_context")
        if p3 and not problem:
            ctx.violation(f"C10:{position}:depends-on-the-ambient-decimal-context", f"date-time {dt12.hex()} at {position} under decimal precision {prec}: {p3} (right in the default context)", case)
    if form == "frame" and all(hasattr(mod, n) for n in ("LlcPdu", "normalize_parsed_frame", "normalize_parsed_notification")):
        # the public two-step API: one parsed object, normalised as a frame, then its notification body on its own, then as a frame again
        try:
            parsed = mod.LlcPdu.parse(msg)
            first = mod.normalize_parsed_frame(parsed)
            inner = mod.normalize_parsed_notification(parsed.information.notification_body)
            again = mod.normalize_parsed_frame(parsed)
        except Exception as ex:
            ctx.violation(f"C10:{position}:two-step:exception:{p1_mon.where(ex)}", f"date-time {dt12.hex()} at {position}: parse + normalise raised {ex!r:.160}", case)
            return
        ctx.count("two_step_normalisations")
        for label, res, want in (("frame", first, spec), ("frame-again", again, spec), ("notification-of-the-parsed-frame", inner, inner_spec)):
            if want is None:
                continue
            p2 = "no meter_datetime" if "meter_datetime" not in res else dlms_gen.check_datetime(res["meter_datetime"], want)
            if p2:
                ctx.violation(f"C10:{position}:two-step:{label}", f"date-time {dt12.hex()} at {position}, normalising one parsed object ({label}): {p2}", case)
                break


def run_threads(shard, ctx) -> None:
    """Six threads released from a barrier decode their FIRST date-times of this (fresh) interpreter at the same moment, then go on:
    lazily filled shared tables and other first-use state must not change any result."""
    import sys
    import threading

    from vf.ctx import Ctx

    n_threads = 6
    locals_ = [Ctx(ID, ctx.tier, ctx.seed, {"index": 1000 + shard["k"] * 10 + t}) for t in range(n_threads)]
    barrier = threading.Barrier(n_threads)

    def worker(c):
        rng = c.rng("threads")
        cases = []
        for i in range(shard["n"]):
            dt12, spec = dlms_gen.gen_datetime(rng)
            if spec["deviation"] is None and i < 4:
                y, mo, d, h, mi, s_ = spec["civil"]
                dev = rng.choice((-60, 60, 120, 0, -720))
                dt12 = ce.datetime12(y, mo, d, 1, h, mi, s_, spec["hundredths"], dev, spec["status"])
                spec = dict(spec, deviation=dev, offset_min=-dev)
            cases.append((POSITIONS[(i + shard["k"]) % 8], dt12, spec))
        barrier.wait()
        for position, dt12, spec in cases:
            check(position, dt12, spec, rng, c)

    old = sys.getswitchinterval()
    sys.setswitchinterval(1e-6)
    try:
        threads = [threading.Thread(target=worker, args=(c,)) for c in locals_]
        for t in threads:
            t.start()
        for t in threads:
            t.join()
    finally:
        sys.setswitchinterval(old)
    for c in locals_:
        for v in c.violations:
            ctx.violation(v["sig"] + ":under-concurrent-threads", v["msg"] + " (decoded in 6 threads at once, first decodes of the process)", v["case"])
    ctx.count("datetimes_decoded_in_concurrent_threads", n_threads * shard["n"])
    ctx.case(f"threads{shard['k']}", True, n_threads * shard["n"])


SOLO_SCRIPT = r"""
import importlib, json, sys
sys.path.insert(0, sys.argv[1])
vendor = sys.argv[2]
mod = importlib.import_module("han." + vendor)      # the only library module this process imports by name
out = []
for form, hx in json.load(sys.stdin):
    fn = mod.decode_notification_body if form == "body" else mod.decode_frame_content
    try:
        d = fn(bytes.fromhex(hx)).get("meter_datetime")
        out.append(None if d is None else [d.year, d.month, d.day, d.hour, d.minute, d.second, d.microsecond, None if d.utcoffset() is None else d.utcoffset().total_seconds() / 60])
    except Exception as ex:
        out.append("raised " + repr(ex)[:120])
print(json.dumps({"results": out, "modules": sorted(m for m in sys.modules if m.startswith("han."))}))
"""


def run_solo(shard, ctx) -> None:
    """An application that uses one meter only imports one decoder module: each vendor module alone in a fresh interpreter."""
    import json
    import subprocess

    from vf import env

    rng = ctx.rng(ID, "solo")
    by_vendor: dict = {}
    for k in range(shard["n"]):
        position = POSITIONS[k % 8]
        dt12, spec = dlms_gen.gen_datetime(rng)
        vendor, form, msg, _inner = build(position, dt12, rng, spec)
        by_vendor.setdefault(vendor, []).append((position, dt12, spec, form, msg))
    for vendor, items in by_vendor.items():
        p = subprocess.run([env.PYTHON, "-B", "-c", SOLO_SCRIPT, env.REPO, vendor], input=json.dumps([[f, m.hex()] for _p, _d, _s, f, m in items]), capture_output=True, text=True, timeout=300)
        try:
            reply = json.loads(p.stdout.strip().splitlines()[-1])
        except Exception:
            ctx.note_inconclusive(f"solo-import probe for {vendor} gave no result: {(p.stdout + p.stderr)[-300:]}")
            continue
        ctx.seen("library_modules_in_the_solo_process:" + vendor, ",".join(reply["modules"]))
        for (position, dt12, spec, form, msg), got in zip(items, reply["results"]):
            case = {"position": position, "dt12": dt12, "spec": spec, "vendor": vendor, "form": form, "message": msg, "solo": True}
            ctx.count("datetimes_decoded_with_only_one_decoder_module_imported")
            ctx.case(b"solo" + position.encode() + dt12, True)
            if got is None or isinstance(got, str):
                ctx.violation(f"C10:{position}:only-this-decoder-imported", f"date-time {dt12.hex()} at {position}, interpreter that imported only han.{vendor}: {got or 'no meter_datetime in the result'}", case)
                continue
            y, mo, d, h, mi, sec = spec["civil"]
            want = [y, mo, d, h, mi, sec, spec["us"], None if spec["offset_min"] is None else float(spec["offset_min"])]
            if got != want:
                ctx.violation(f"C10:{position}:only-this-decoder-imported", f"date-time {dt12.hex()} at {position}, interpreter that imported only han.{vendor}: {got} != {want}", case)


def run_grid(shard, ctx) -> None:
    """Every sentinel instant x deviation {unspecified, 0, +60, -60} x status {00, 80, FF, 01, 8F} x hundredths {unspecified, 0} in every position:
    coincidences of two or three special values in one date-time do not depend on a random draw."""
    rng = ctx.rng(ID, "grid")
    n = 0
    for (y, mo, d, h, mi, s_) in dlms_gen.SENTINEL_INSTANTS:
        for dev in (None, 0, 60, -60):
            if dev is not None and not (2 <= y <= 9998):
                continue
            for status in (0x00, 0x80, 0xFF, 0x01, 0x8F):
                for hund in (None, 0):
                    dt12 = ce.datetime12(y, mo, d, 0xFF, h, mi, s_, hund, dev, status)
                    spec = {"civil": [y, mo, d, h, mi, s_], "us": 0, "offset_min": None if dev is None else -dev, "status": status, "deviation": dev, "hundredths": hund}
                    for position in POSITIONS:
                        check(position, dt12, spec, rng, ctx)
                        n += 1
                    ctx.case(b"grid" + dt12, True, len(POSITIONS))
    ctx.count("sentinel_grid_datetimes_checked", n)


def run(shard, ctx):
    if shard.get("kind") == "grid":
        run_grid(shard, ctx)
        return
    if shard.get("kind") == "solo":
        run_solo(shard, ctx)
        return
    if shard.get("kind") == "threads":
        run_threads(shard, ctx)
        return
    rng = ctx.rng(ID)
    for i in range(shard["n"]):
        k = shard["k0"] + i
        position = POSITIONS[k % 8]
        dt12, spec = dlms_gen.gen_datetime(rng)
        # systematic (status, deviation) pair; rotate so that each position meets every status octet
        j = k // 8
        status = (j + (k % 8) * 32) % 256
        deviation = DEVIATIONS[(j // 256 * 7 + j) % len(DEVIATIONS)] if rng.random() < 0.7 else spec["deviation"]
        y, mo, d, h, mi, s = spec["civil"]
        dow = dt12[4]
        dt12 = ce.datetime12(y, mo, d, dow, h, mi, s, spec["hundredths"], deviation, status)
        spec = dict(spec, status=status, deviation=deviation, offset_min=None if deviation is None else -deviation)
        check(position, dt12, spec, rng, ctx)
        nontrivial = deviation is not None or spec["hundredths"] is not None or status != 0
        ctx.case(position.encode() + dt12, nontrivial)
        ctx.count(f"position_{position}")
        ctx.seen("status_octets", status)
        if deviation is None:
            ctx.count("deviation_unspecified")
        elif deviation > 0:
            ctx.count("deviation_positive")
        elif deviation < 0:
            ctx.count("deviation_negative")
        else:
            ctx.count("deviation_zero")
        if spec["hundredths"] not in (None, 0):
            ctx.count("hundredths_nonzero")
        if status == 0xFF:
            ctx.count("status_FF")
        if i % 4 == 0:
            # a burst of date-times that share the civil second and differ only in hundredths / deviation / status, chosen so that
            # the digits of (hundredths, deviation) read the same when written next to each other: (26, 0) and (2, 60), (12, 3) and (1, 23)
            digits = str(rng.randint(100, 9999))
            for cut in range(1, len(digits)):
                hh, dd = int(digits[:cut]), int(digits[cut:])
                if hh > 99 or dd > 720:
                    continue
                for sign in (1, -1):
                    b12 = ce.datetime12(y, mo, d, dow, h, mi, s, hh, sign * dd, status)
                    bspec = dict(spec, hundredths=hh, us=hh * 10000, deviation=sign * dd, offset_min=-sign * dd)
                    check(position, b12, bspec, rng, ctx)
                    ctx.case(position.encode() + b12, True)
                    ctx.count("burst_datetimes_sharing_the_civil_second")
        if i < 2:
            ctx.sample({"position": position, "dt12": dt12, "expect": spec})


def replay(case, ctx):
    import random

    # the message itself is replayed, not rebuilt
    import importlib

    if case.get("solo"):
        import json
        import subprocess

        from vf import env

        p = subprocess.run([env.PYTHON, "-B", "-c", SOLO_SCRIPT, env.REPO, case["vendor"]], input=json.dumps([[case["form"], case["message"].hex()]]), capture_output=True, text=True, timeout=300)
        got = json.loads(p.stdout.strip().splitlines()[-1])["results"][0]
        y, mo, d, h, mi, sec = case["spec"]["civil"]
        want = [y, mo, d, h, mi, sec, case["spec"]["us"], None if case["spec"]["offset_min"] is None else float(case["spec"]["offset_min"])]
        if got != want:
            ctx.violation(f"C10:{case['position']}:only-this-decoder-imported", f"{got} != {want}", case)
        return
    mod = importlib.import_module(f"han.{case['vendor']}")
    fn = mod.decode_notification_body if case["form"] == "body" else mod.decode_frame_content
    try:
        got = fn(case["message"])
    except Exception as ex:
        ctx.violation(f"C10:{case['position']}:exception:{p1_mon.where(ex)}", repr(ex), case)
        return
    problem = dlms_gen.check_datetime(got.get("meter_datetime"), case["spec"])
    if problem:
        ctx.violation(f"C10:{case['position']}:mismatch", problem, case)


def finalize(agg, tier):
    c = agg["counters"]
    reasons = [f"workload never produced '{k}'" for k in ["deviation_positive", "deviation_negative", "deviation_zero", "deviation_unspecified", "hundredths_nonzero", "status_FF"]
               + [f"position_{p}" for p in POSITIONS] if c.get(k, 0) == 0]
    n_status = len(agg["sets"].get("status_octets", ()))
    if n_status != 256:
        reasons.append(f"only {n_status} of 256 status octets occurred")
    return {"status_octets_covered": n_status}, reasons
