"""C07 - Aidon lists decode to the transmitted register values, scaled exactly.

Monitor: lists are encoded by vf/ref/cosem_enc.py from a Python description; the
same description yields the expected dictionary through the frozen name table
and exact Fraction arithmetic; both decode_notification_body(body) and
decode_frame_content(LLC+APDU+body) of the real decoder are compared key by key.
"""
from __future__ import annotations

from vf.gen import dlms_gen
from vf.props import dlms_common

ID = "C07"
LEVEL = "exploration"
RULE = (
    "list = one of the documented Aidon layouts (NO list 1, list 2 one-/three-phase/IT, list 3 one-/three-phase, SE list) or a random subset/permutation "
    "of known OBIS elements without duplicate field names; registers of the documented type (u32 power/energy, i16 current, u16 voltage; 15% a random one of the three) "
    "drawn from {type min, min+1, max, max-1, 0, 1, 999..1001, random}, scaler exponent -3..3 (70% of lists) or as documented, random printable strings, "
    "clock per C10, APDU date-time null/tagged/untagged. expected numeric = Fraction(reg)*10^exp, int if integral else the correctly rounded float. "
    "evaluations = lists decoded (2 decoder calls each); distinct non-trivial = distinct body digests with >= 1 scaled numeric field."
)
ASSUMPTIONS = ["encoder vf/ref/cosem_enc.py (rebuilt vendor captures byte for byte in setup) and name table vf/ref/names.py are the specification side"]
WATCHDOG_S = {"quick": 900, "thorough": 7200}
N = {"quick": 600, "thorough": 9500}
GEN = staticmethod(dlms_gen.aidon_case)


def plan(tier, seed):
    return [{"n": N[tier]} for _ in range(16)] + [{"kind": "threads", "rounds": 3 if tier == "quick" else 40}] + [{"n": N[tier] // 2, "python_flags": ["-bb"]}]


def run(shard, ctx):
    if shard.get("kind") == "threads":
        dlms_common.digest_twins(ID, "aidon", ctx)
        for _ in range(shard["rounds"]):
            dlms_common.run_threads(ID, dlms_gen.aidon_case, ctx)
        return
    rng = ctx.rng(ID)
    for i in range(shard["n"]):
        case = dlms_gen.aidon_case(rng)
        dlms_common.check_case(ID, case, ctx)
        numeric = any(t.split(":")[0] in ("u32", "i16", "u16") for t in case.tags)
        ctx.case(case.body, numeric)
        ctx.count(f"layout_{case.layout}")
        for t in set(case.tags):
            ctx.count(f"tag_{t}")
        if i < 2:
            ctx.sample({"layout": case.layout, "body": case.body[:120], "expected": {k: [v[0], str(v[1])[:40]] for k, v in list(case.expect_body.items())[:8]}})


def replay(case, ctx):
    dlms_common.replay_case(ID, case, ctx)


def finalize(agg, tier):
    c = agg["counters"]
    reasons = [f"workload never produced '{k}'" for k in ("tag_negative_register", "tag_i16:boundary", "tag_u32:boundary", "tag_i16:exp-2", "layout_se_list", "layout_subset", "fields_compared_frame")
               if c.get(k, 0) == 0]
    return {}, reasons
