"""C12 - AutoDecoder picks a decoder that accepts the message, across any history.

Model-based differential monitor: the seven individual decoder functions are run
in isolation on every pool payload (accept set A(p), results R_d(p)); then, for
every step of a history on ONE AutoDecoder instance, the observed result and
previous_success_decoder are checked against the statement:
  result is None  <=>  A(p) is empty
  result in {R_d(p) : d in A(p)}, and == R_m(p) when the remembered decoder m accepts p
  previous_success_decoder names an accepting decoder whose result is the one returned,
  and is unchanged by payloads nobody accepts.
Genuine generated messages on a fresh decoder / same-meter-same-form history must
be decoded by the meter's own decoder with the values of C07-C09/C11.
decode_message(HDLC frame | DlmsMessage) must equal decode_message_payload(payload).
Every call runs under C15's logical step budget.
"""
from __future__ import annotations

import itertools
import random

from vf.ctx import digest64
from vf.gen import dlms_gen, hdlc_gen, pool
from vf.mon import hdlc_mon, p1_mon, steps
from vf.ref import hdlc_ref

ID = "C12"
LEVEL = "exploration"
RULE = (
    "pool (~50 payloads, fixed per seed): the 28 fixture messages of all supported lists in frame and body form, generated lists of each vendor in both forms, Kaifa list-1 messages whose register "
    "holds '(' / ')' octets, P1 blocks, junk (random bytes, truncated and mutated genuine messages, ASCII fragments, well-formed lists of undocumented length, frames with other LLC octets, unknown OBIS, null / FF date-times). histories: ALL sequences of length <= 2 (quick) / <= 3 (thorough) over the pool, "
    "plus random histories up to length 30 and histories with success streaks followed by runs of up to 70 rejected payloads; each history runs on one AutoDecoder. evaluations = AutoDecoder calls checked; distinct non-trivial = distinct histories (enumerated ones by construction) "
    "containing >= 1 payload that some decoder accepts."
)
ASSUMPTIONS = [
    "'an individual decoder accepts p' = the module-level decode function returns a dict without raising, run in isolation under the same step budget",
    "expected values of generated genuine messages come from vf/gen/dlms_gen.py (the C07-C09 oracles)",
]
WATCHDOG_S = {"quick": 900, "thorough": 7200}


def decoder_table():
    from han import aidon, dlde, kaifa, kamstrup

    return {
        "Aidon_frame": aidon.decode_frame_content, "Kaifa_frame": kaifa.decode_frame_content, "Kamstrup_frame": kamstrup.decode_frame_content,
        "P1": dlde.decode_p1_readout_content,
        "Aidon_notification_body": aidon.decode_notification_body, "Kaifa_notification_body": kaifa.decode_notification_body,
        "Kamstrup_notification_body": kamstrup.decode_notification_body,
    }


def build_pool(seed: int):
    """[(label, family or None, form, payload, generated Case or None)]"""
    rng = random.Random(digest64(f"c12pool{seed}"))
    items = []
    for label, fam, form, data in pool.genuine(rng, n_generated_per_vendor=0):
        items.append((label, fam, form, data, None))
    for gen in (dlms_gen.aidon_case, dlms_gen.kaifa_case, dlms_gen.kamstrup_case):
        for _ in range(2):
            c = gen(rng)
            items.append((f"gen_{c.vendor}_{c.layout}_body", c.vendor.capitalize(), "body", c.body, c))
            items.append((f"gen_{c.vendor}_{c.layout}_frame", c.vendor.capitalize(), "frame", c.frame, c))
    genuine = [it for it in items]
    # genuine frames whose three LLC octets read like the header of an (empty) list of another meter: whoever ignores the LLC octets
    # accepts them as a frame, whoever reads lists may accept them as a bare body - several decoders accept, the remembered one decides
    for gen in (dlms_gen.aidon_case, dlms_gen.kaifa_case, dlms_gen.kamstrup_case):
        c = gen(rng)
        for llc in (b"\x01\x00\x00", b"\x02\x00\x0f"):
            items.append((f"junk_llc_reads_{llc.hex()}_{c.vendor}", None, "junk", llc + c.frame[3:], None))
    for i in range(3):
        items.append((f"junk_random_{i}", None, "junk", rng.randbytes(rng.choice((1, 5, 40))), None))
    for i in range(6):
        src = rng.choice(genuine)
        mut, kind = pool.mutate(rng, src[3])
        items.append((f"junk_{kind}_{i}_of_{src[0]}", None, "junk", mut, None))
    seen_kinds = set()
    for _ in range(200):
        data, kind = pool.structured_junk(rng)
        if kind not in seen_kinds or (kind == "llc_variant" and sum(1 for it in items if it[0].startswith("junk_llc_variant")) < 3):
            seen_kinds.add(kind)
            items.append((f"junk_{kind}_{len(items)}", None, "junk", data, None))
    items.append(("junk_p1_infinite_value", None, "junk", b"1-0:1.7.0(9e9123*kW)\r\n", None))
    # P1 text that the P1 decoder accepts with an EMPTY dictionary (only multi-valued data sets): accepted is accepted
    items.append(("p1_only_multivalued_sets", None, "junk", b"0-1:24.2.1(101209112500W)(12785.123*m3)\r\n1-0:99.97.0(2)(0-0:96.7.19)(101208152415W)(0000000240*s)\r\n", None))
    items.append(("junk_ascii_unbalanced", None, "junk", b"1-0:1.8.0(123", None))
    items.append(("junk_ascii_trailing", None, "junk", b"1-0:1.8.0(123)xyz", None))
    items.append(("junk_empty", None, "junk", b"", None))
    # the shortest inputs a decoder may accept: an empty array / structure, a list header without elements
    for tiny in (b"\x01\x00", b"\x02\x00", b"\x02\x01", b"\x02\x01\x0a\x00"):
        items.append((f"tiny_{tiny.hex()}", None, "junk", tiny, None))
    return items


class Oracle:
    def __init__(self, ctx, seed: int):
        from han.autodecoder import AutoDecoder

        self.AutoDecoder = AutoDecoder
        self.ctx = ctx
        self.table = decoder_table()
        self.budget = steps.StepBudget()
        self.pool = build_pool(seed)
        self.accept: list[dict] = []  # per pool item: {decoder name: result}
        for label, fam, form, data, case in self.pool:
            acc = {}
            for name, fn in self.table.items():
                res, exc, _ = self.budget.call(lambda: fn(data), 50_000 + 2_000 * len(data))
                if exc is None and isinstance(res, dict):
                    acc[name] = res
                elif isinstance(exc, steps.BudgetExceeded):
                    ctx.count("individual_decoder_hit_step_budget")
            self.accept.append(acc)
            ctx.seen("accept_set_sizes", len(acc))
            if len(acc) > 1:
                ctx.seen("payloads_accepted_by_several_decoders", f"{label}:{'+'.join(sorted(acc))}")

    def close(self):
        self.budget.close()

    def run_history(self, hist: tuple[int, ...], api: str = "payload") -> bool:
        """Returns True when at least one payload of the history is accepted by some decoder."""
        dec = self.AutoDecoder()
        remembered = None
        nontrivial = False
        same_meter = True
        first_key = None
        for step, pi in enumerate(hist):
            label, fam, form, data, gcase = self.pool[pi]
            acc = self.accept[pi]
            case = {"history": [self.pool[i][0] for i in hist], "payloads": [self.pool[i][3] for i in hist], "step": step, "api": api}
            if api == "payload":
                res, exc, _ = self.budget.call(lambda: dec.decode_message_payload(data), 50_000 + 2_000 * len(data))
            else:
                from han.common import DlmsMessage

                msg = DlmsMessage(data)
                if data and b"!" not in data and (step + pi + len(hist)) % 3 == 0:
                    # the same block as the data block of a P1 readout object, under a well-formed or a malformed identification line:
                    # the binary decoders see the block, the P1 decoder sees the readout (identification fields added, or rejected)
                    from han import dlde

                    ident = (b"/ISk5\\2MT382-1000", b"/lgf5E360", b"/KFM5KAIFA-METER", b"/AB")[(step + pi) % 4]
                    try:
                        msg = dlde.DataReadout(ident + b"\r\n" + data + b"!\r\n")
                    except Exception:
                        msg = DlmsMessage(data)
                    if isinstance(msg, dlde.DataReadout) and bytes(msg.payload) == data:
                        p1res, p1exc, _ = self.budget.call(lambda: dlde.decode_p1_readout(msg), 50_000 + 2_000 * len(data))
                        acc = {k: v for k, v in acc.items() if k != "P1"}
                        if p1exc is None and isinstance(p1res, dict):
                            acc["P1"] = p1res
                        self.ctx.count("steps_given_as_a_P1_readout_object")
                        fam = None  # the genuine-message clauses speak about payloads, not about this wrapping
                    else:
                        msg = DlmsMessage(data)
                if isinstance(msg, DlmsMessage) and 0 < len(data) <= 2000 and (step + pi + len(hist)) % 3 == 1:
                    # the payload as information field of an HDLC frame object; frames of different meters come from different source
                    # addresses (one AutoDecoder behind a multi-drop line) - the address is not part of what is decoded
                    src = {"Aidon": b"\x21", "Kaifa": b"\x02\x23", "Kamstrup": b"\x10\x21", "P1": b"\x41"}.get(fam, bytes((0x02, ((pi * 2) % 254) | 1)))
                    octs = hdlc_ref.build(0xA, False, b"\x03", src, 0x13, data)
                    stuffing = 0x7E in octs
                    got_frames = hdlc_mon.new_reader((stuffing, False)).read(b"\x7e" + (hdlc_ref.stuff(octs) if stuffing else octs) + b"\x7e")
                    if len(got_frames) == 1 and got_frames[0].payload == data:
                        msg = got_frames[0]
                        self.ctx.count("steps_given_as_an_HDLC_frame_object")
                res, exc, _ = self.budget.call(lambda: dec.decode_message(msg), 50_000 + 2_000 * len(data))
            self.ctx.count("autodecoder_calls_checked")
            if exc is not None:
                what = "step-budget" if isinstance(exc, steps.BudgetExceeded) else f"exception:{p1_mon.where(exc)}"
                self.ctx.violation(f"C12:no-result:{what}", f"step {step} ({label}): call did not return: {exc!r:.120}", case)
                return nontrivial
            psd = dec.previous_success_decoder
            if api == "message" and not data:
                if res is not None:
                    self.ctx.violation("C12:empty-payload-decoded", f"decode_message of an empty payload returned {res!r:.60}", case)
                continue
            if not acc:
                if res is not None:
                    self.ctx.violation("C12:result-for-payload-nobody-accepts", f"step {step} ({label}): no individual decoder accepts the payload, AutoDecoder returned {res!r:.80}", case)
                if psd != remembered:
                    self.ctx.violation("C12:remembered-decoder-changed-by-rejected-payload", f"step {step} ({label}): previous_success_decoder {remembered!r} -> {psd!r} although nobody accepts the payload", case)
                self.ctx.count("steps_rejected")
                continue
            nontrivial = True
            if res is None:
                self.ctx.violation("C12:none-although-accepted", f"step {step} ({label}): decoders {sorted(acc)} accept the payload, AutoDecoder returned None (remembered {remembered!r})", case)
                continue
            if remembered in acc:
                self.ctx.count("steps_where_remembered_decoder_accepts")
                if res != acc[remembered]:
                    self.ctx.violation("C12:remembered-decoder-not-preferred", f"step {step} ({label}): remembered decoder {remembered!r} accepts the payload but the result is not its result (previous_success_decoder now {psd!r})", case)
            elif remembered is not None:
                self.ctx.count("steps_where_decoder_switches")
            if not any(res == r for r in acc.values()):
                self.ctx.violation("C12:result-of-no-accepting-decoder", f"step {step} ({label}): result equals the result of none of the accepting decoders {sorted(acc)}", case)
            if psd not in acc or acc[psd] != res:
                self.ctx.violation("C12:previous_success_decoder-wrong", f"step {step} ({label}): previous_success_decoder={psd!r}, accepting decoders {sorted(acc)}, result matches {[d for d, r in acc.items() if r == res]}", case)
            remembered = psd
            # genuine messages: own decoder and exact values, on a fresh decoder or a same-meter-same-form history
            if fam is not None:
                key = (fam, form)
                if first_key is None:
                    first_key = key
                if key != first_key:
                    same_meter = False
                if same_meter and all(self.pool[i][1] is not None for i in hist[: step + 1]):
                    own = pool.own_decoder(fam, form)
                    self.ctx.count("genuine_steps_on_fresh_or_same_meter_history")
                    if psd != own:
                        self.ctx.violation("C12:genuine-message-not-decoded-by-own-decoder", f"step {step}: genuine {fam} {form} message {label} decoded by {psd!r}, expected {own!r}", case)
                    if gcase is not None:
                        expect = gcase.expect_frame if form == "frame" else gcase.expect_body
                        for fld, problem in dlms_gen.compare_dict(res, expect):
                            self.ctx.violation("C12:genuine-message-values", f"step {step}: {label}: {fld}: {problem}", case)
                            break
            else:
                same_meter = False
        return nontrivial

    def twin(self, h1: tuple, h2: tuple, rng) -> None:
        """Two AutoDecoder objects used alternately must each behave as when used alone (no state shared between instances)."""
        def solo(h):
            d = self.AutoDecoder()
            out = []
            for pi in h:
                res, exc, _ = self.budget.call(lambda: d.decode_message_payload(self.pool[pi][3]), 50_000 + 2_000 * len(self.pool[pi][3]))
                out.append((res, type(exc).__name__ if exc else None, d.previous_success_decoder))
            return out

        want = [solo(h1), solo(h2)]
        decs = [self.AutoDecoder(), self.AutoDecoder()]
        hs = [h1, h2]
        got = [[], []]
        idx = [0, 0]
        while idx[0] < len(h1) or idx[1] < len(h2):
            k = rng.randrange(2)
            if idx[k] >= len(hs[k]):
                k = 1 - k
            data = self.pool[hs[k][idx[k]]][3]
            res, exc, _ = self.budget.call(lambda: decs[k].decode_message_payload(data), 50_000 + 2_000 * len(data))
            got[k].append((res, type(exc).__name__ if exc else None, decs[k].previous_success_decoder))
            idx[k] += 1
        self.ctx.count("twin_executions")
        for k in range(2):
            if got[k] != want[k]:
                step = next(i for i, (g, w) in enumerate(zip(got[k], want[k])) if g != w)
                self.ctx.violation("C12:instances-share-state", f"decoder {k}: step {step} ({self.pool[hs[k][step]][0]}) differs when another AutoDecoder object is used in between: {got[k][step][1:]} vs alone {want[k][step][1:]}",
                                   {"history": [self.pool[i][0] for i in hs[k]], "payloads": [self.pool[i][3] for i in hs[k]], "step": step, "api": "payload"})

    def history_across_threads(self, hist: tuple) -> None:
        """The calls of one history are strictly sequential but come from different threads (executor threads decode, the main
        thread reads the state): the AutoDecoder's history belongs to the object, not to the calling thread."""
        import threading

        def solo():
            d = self.AutoDecoder()
            out = []
            for pi in hist:
                out.append((d.decode_message_payload(self.pool[pi][3]), d.previous_success_decoder))
            return out

        try:
            want = solo()
        except BaseException:
            return
        dec = self.AutoDecoder()
        got = []

        def step(pi):
            try:
                got.append([dec.decode_message_payload(self.pool[pi][3]), None])
            except BaseException as ex:  # noqa
                got.append([("raised", type(ex).__name__), None])

        for pi in hist:
            t = threading.Thread(target=step, args=(pi,))
            t.start()
            t.join()
            got[-1][1] = dec.previous_success_decoder  # read in the main thread
        self.ctx.count("histories_across_threads")
        got = [tuple(g) for g in got]
        if got != want:
            k = next(i for i, (g, w) in enumerate(zip(got, want)) if g != w)
            self.ctx.violation("C12:history-depends-on-calling-thread", f"step {k} ({self.pool[hist[k]][0]}): called from a fresh thread -> decoder {got[k][1]!r}, in one thread -> {want[k][1]!r}",
                               {"history": [self.pool[i][0] for i in hist], "payloads": [self.pool[i][3] for i in hist], "step": k, "api": "payload"})

    def check_frame_collision(self, rng) -> None:
        """Two valid HDLC frames of equal length and equal FCS but different content, decoded one after the other through
        decode_message on one AutoDecoder: each result must be that of its own payload."""
        from vf.ref import cosem_enc as ce
        from vf.ref import fcs16

        def frame_for(reg: int, invoke: bytes) -> bytes:
            payload = ce.apdu(ce.kaifa_value_body([ce.u32(reg)]), ce.datetime12(2024, 2, 29, 4, 12, 0, 0, None, None, 0), True, invoke)
            return hdlc_ref.build(0xA, False, b"\x03", b"\x21", 0x13, payload)

        f1 = frame_for(5852, b"\x40\x00\x00\x00")
        target = f1[-2:]
        f2 = None
        for a in range(256):
            for b in range(256):
                cand = frame_for(1234, bytes((0x40, a, b, 0x00)))
                if cand[-2:] == target:
                    f2 = cand
                    break
            if f2:
                break
        if f2 is None:
            return
        reader = hdlc_mon.new_reader((False, True))
        frames = reader.read(b"\x7e" + f1 + b"\x7e" + f2 + b"\x7e")
        if len(frames) != 2 or not all(f.is_valid for f in frames):
            return
        dec = self.AutoDecoder()
        self.ctx.count("frame_fcs_collision_pairs")
        for f, reg in zip(frames, (5852, 1234)):
            got, exc, _ = self.budget.call(lambda: dec.decode_message(f), 200_000)
            want, _e, _ = self.budget.call(lambda: self.AutoDecoder().decode_message_payload(f.payload), 200_000)
            if exc is not None or got != want or not isinstance(got, dict) or got.get("active_power_import") != reg:
                self.ctx.violation("C12:decode_message-differs-from-payload:HdlcFrame", f"frame with register {reg} (same length and FCS as the previous frame): decode_message -> {got!r:.80}, decode_message_payload -> {want!r:.80}",
                                   {"history": ["frame1", "frame2"], "payloads": [bytes(frames[0].payload), bytes(frames[1].payload)], "step": 1, "api": "message"})

    def check_message_equivalence(self, pi: int) -> None:
        """decode_message(HDLC frame / DlmsMessage) == decode_message_payload(payload) on twin decoders."""
        from han.common import DlmsMessage

        label, fam, form, data, _ = self.pool[pi]
        if not data or len(data) > 2000:
            return
        want, exc, _ = self.budget.call(lambda: self.AutoDecoder().decode_message_payload(data), 50_000 + 2_000 * len(data))
        if exc is not None:
            return
        # the payload is what counts: every header the frame may carry (segmentation bit, 1..4 octet addresses, any control octet)
        hrng = self.ctx.rng("c12", "header", pi, self.ctx.counters.get("message_equivalence_checked_DlmsMessage", 0))
        seg = hrng.random() < 0.4
        dst = hrng.choice((b"\x03", b"\x00\x03", b"\x02\x04\x06\x09"))
        src = hrng.choice((b"\x21", b"\x10\x21", b"\x02\x04\x06\x21"))
        frame_octets = hdlc_ref.build(0xA, seg, dst, src, hrng.choice((0x13, 0x10, 0x03, hrng.randrange(256))), data)
        if seg:
            self.ctx.count("message_equivalence_frames_with_the_segmentation_bit")
        reader = hdlc_mon.new_reader((False, True))
        real_frames = reader.read(b"\x7e" + frame_octets + b"\x7e")
        msgs = [("DlmsMessage", DlmsMessage(data))]
        if len(real_frames) == 1 and real_frames[0].payload == data:
            msgs.append(("HdlcFrame", real_frames[0]))
        for kind, m in msgs:
            got, exc2, _ = self.budget.call(lambda: self.AutoDecoder().decode_message(m), 50_000 + 2_000 * len(data))
            self.ctx.count(f"message_equivalence_checked_{kind}")
            if exc2 is not None or got != want:
                self.ctx.violation(f"C12:decode_message-differs-from-payload:{kind}", f"{label}: decode_message({kind}) -> {got!r:.60} / {exc2!r:.60}; decode_message_payload -> {want!r:.60}", {"history": [label], "payloads": [data], "step": 0, "api": kind})


def plan(tier, seed):
    L = 2 if tier == "quick" else 3
    shards = [{"kind": "enum", "L": L, "mod": 15, "rem": k} for k in range(15)]
    shards.append({"kind": "random", "n": 150 if tier == "quick" else 5000})
    return shards


def run(shard, ctx):
    o = Oracle(ctx, ctx.seed)
    try:
        n = len(o.pool)
        ctx.count("pool_size", n) if shard["index"] == 0 else None
        if shard["kind"] == "enum":
            idx = 0
            cnt = nt = calls = 0
            for length in range(1, shard["L"] + 1):
                for hist in itertools.product(range(n), repeat=length):
                    idx += 1
                    if idx % shard["mod"] != shard["rem"]:
                        continue
                    api = "payload" if idx % 5 else "message"
                    if o.run_history(hist, api):
                        nt += 1
                    cnt += 1
                    calls += length
            ctx.enumerated(calls, nt)
            ctx.count("histories_enumerated", cnt)
            if shard["rem"] == 0:
                for pi in range(n):
                    o.check_message_equivalence(pi)
                o.check_frame_collision(ctx.rng("coll"))
                ctx.sample({"pool": [(lab, fam, form, len(d)) for lab, fam, form, d, _ in o.pool][:60]})
                ctx.sample({"history_example": [o.pool[i][0] for i in (0, n - 1)]})
        else:
            rng = ctx.rng("c12r")
            for i in range(shard["n"]):
                length = rng.randint(4, 30)
                style = rng.random()
                junk_items = [k for k, it in enumerate(o.pool) if not o.accept[k]]
                if style < 0.15 and junk_items:
                    # a streak of successes, a long run of payloads nobody accepts (up to 70), then genuine messages again
                    fam_items = [k for k, it in enumerate(o.pool) if it[1] is not None]
                    k0 = rng.choice(fam_items)
                    hist = tuple([k0] * rng.choice((1, 3, 5, 6, 9)) + [rng.choice(junk_items) for _ in range(rng.choice((1, 8, 31, 32, 33, 40, 70)))]
                                 + [rng.choice(fam_items), k0, rng.choice(fam_items)])
                    ctx.count("long_histories_with_junk_runs")
                elif style < 0.3:  # same meter, same form, with junk in between
                    fam_items = [k for k, it in enumerate(o.pool) if it[1] is not None]
                    k0 = rng.choice(fam_items)
                    same = [k for k in fam_items if o.pool[k][1:3] == o.pool[k0][1:3]]
                    hist = tuple(rng.choice(same) for _ in range(length))
                else:
                    hist = tuple(rng.randrange(n) for _ in range(length))
                if i % 7 == 0:
                    o.history_across_threads(hist[:10])
                if i % 5 == 0:
                    o.twin(hist[:8], tuple(rng.randrange(n) for _ in range(rng.randint(2, 8))), rng)
                nt = o.run_history(hist, "payload" if rng.random() < 0.8 else "message")
                ctx.case(repr(hist), nt, length)
                ctx.count("random_histories")
    finally:
        o.close()


def replay(case, ctx):
    """Replays the recorded payload sequence on a fresh AutoDecoder against freshly computed accept sets."""
    o = Oracle(ctx, 0)
    try:
        base = len(o.pool)
        for i, data in enumerate(case["payloads"]):
            o.pool.append((case["history"][i], None, "junk", data, None))
            acc = {}
            for name, fn in o.table.items():
                res, exc, _ = o.budget.call(lambda: fn(data), 50_000 + 2_000 * len(data))
                if exc is None and isinstance(res, dict):
                    acc[name] = res
            o.accept.append(acc)
        api = case.get("api", "payload")
        o.run_history(tuple(range(base, base + len(case["payloads"]))), api if api in ("payload", "message") else "message")
    finally:
        o.close()


def finalize(agg, tier):
    c = agg["counters"]
    L = 2 if tier == "quick" else 3
    n = c.get("pool_size", 0)
    want = sum(n ** k for k in range(1, L + 1))
    reasons = []
    if n == 0 or c.get("histories_enumerated", 0) != want:
        reasons.append(f"history enumeration incomplete: {c.get('histories_enumerated', 0)} of {want} (pool {n})")
    for k in ("steps_where_remembered_decoder_accepts", "steps_where_decoder_switches", "steps_rejected", "genuine_steps_on_fresh_or_same_meter_history",
              "message_equivalence_checked_DlmsMessage", "message_equivalence_checked_HdlcFrame", "random_histories"):
        if c.get(k, 0) == 0:
            reasons.append(f"monitor never observed '{k}'")
    return {"exhaustive": not reasons, "exhaustive_scope": f"all histories of length <= {L} over a pool of {n} payloads (random histories up to length 30 are sampled)"}, reasons
