"""C02 - HDLC: every well-formed frame on a clean stream is delivered once, in order.

Monitor: the generator remembers exactly what it sent (frame octets and the
field values they were built from); the recorder lists what read() returned over
the whole call sequence; oracle = the two lists are equal element by element.
"""
from __future__ import annotations

from vf.gen import hdlc_gen, splits
from vf.mon import hdlc_mon
from vf.ref import hdlc_ref

ID = "C02"
LEVEL = "exploration"
RULE = (
    "stream = [flag-free noise] + 1..8 well-formed frames (addresses 1..4 octets each, any control/format type/S bit, info 0..max "
    "with emphasis on 0,1,2 and the 2047-octet limit, flag/escape-dense or uniform payload, unique 6-octet id in the info field), "
    "separated and terminated by 1..3 flags (30%: a fill run of 1..1000 flags with lengths around powers of two and multiples of 33); 30% of the frames sit on boundary values (HCS/FCS 0000, FFFF, ending in 7D, containing 7E, running FCS register 0000 mid-frame, near-maximum flag/escape-dense); every 20th stream holds 60..700 frames (up to ~90 KB, also fed as one tiny call followed by one huge call); splittings include cuts near 2047/2048/8191/8192 multiples and right after every n-th flag; stuffed on the wire for stuffing readers; for non-stuffing readers frames are redrawn until "
    "they are inside the property's domain (no flag in header octets; with abort detection no 7D directly before a flag or the frame end). "
    "fill sweep: every fill-run length within +-8 of a multiple of 2047 / 2048 / 4096 / 8191 / 8192 / 1000 / 65536 (up to 20 600 flags quick, 66 000 thorough) between frames; one read() call of more than 4 MiB (and one of 12 MiB of larger frames, thorough) of back-to-back frames. "
    "Each stream runs under several splittings. evaluations = executions; distinct non-trivial = distinct (configuration, stream) digests "
    "(every stream contains >= 1 frame); a small shard runs ALL 2^(L-1) splittings of short streams; twin executions feed two reader objects alternately with adversarial call boundaries (calls ending right after an escape octet / starting with a flag)."
)
ASSUMPTIONS = [
    "frames are built by vf/ref/hdlc_ref.build (independent of the code under test)",
    "header-only frames may report payload None or b''",
]
WATCHDOG_S = {"quick": 900, "thorough": 7200}
N_STREAMS = {"quick": 260, "thorough": 19000}


def plan(tier: str, seed: int) -> list[dict]:
    shards = [{"kind": "gen", "n": N_STREAMS[tier]} for _ in range(15)]
    shards.append({"kind": "allsplits", "n": 6 if tier == "quick" else 40})
    # inter-frame fill of every length in the neighbourhood of the multiples of the protocol's constants (frame limit, buffer sizes)
    n_fill = 8 if tier == "quick" else 16
    for k in range(n_fill):
        shards.append({"kind": "fill_sweep", "rem": k, "mod": n_fill, "limit": 20600 if tier == "quick" else 66000})
    # one read() call that carries more than 4 MiB / 32 MiB (a capture replayed in one go)
    shards.append({"kind": "huge_call", "octets": 5 << 20})
    if tier != "quick":
        # (large frames only: the reader's cost per call grows with frames x buffer size, tiny frames would take hours at this size)
        shards.append({"kind": "huge_call", "octets": 12 << 20, "large_only": True})
    return shards


def fill_lengths(limit: int) -> list[int]:
    out = set()
    for c in (2047, 2048, 4096, 8191, 8192, 1000, 65536):
        k = 1
        while c * k - 8 <= limit:
            out.update(n for n in range(c * k - 8, c * k + 9) if 0 < n <= limit)
            k += 1
    return sorted(out)


def run_fill_sweep(shard: dict, ctx) -> None:
    rng = ctx.rng("c02", "fill", shard["rem"])
    lengths = [n for i, n in enumerate(fill_lengths(shard["limit"])) if i % shard["mod"] == shard["rem"]]
    for n in lengths:
        cfg = hdlc_gen.CONFIGS[rng.randrange(4)]
        ids = hdlc_gen.IdSource(rng)
        sent = []
        out = bytearray(b"\x7e")
        for j in range(3):
            while True:
                fr, d = hdlc_gen.good_frame(rng, ids, max_info=40, want_info=True)
                if cfg[0] or hdlc_gen.in_plain_domain(fr, cfg[1]):
                    break
            sent.append((fr, d))
            out += hdlc_gen.on_wire(fr, cfg[0])
            out += b"\x7e" * (n if j == 0 else 1)
        stream = bytes(out)
        for spec in (("none",), splits.random_spec(rng, len(stream), False)):
            compare(cfg, stream, spec, sent, ctx)
        ctx.case(b"fill" + n.to_bytes(4, "big") + bytes(cfg), True, 2)
        ctx.count("fill_run_lengths_swept")
        ctx.maximum("longest_fill_run", n)


def run_huge_call(shard: dict, ctx) -> None:
    rng = ctx.rng("c02", "huge")
    cfg = hdlc_gen.CONFIGS[rng.randrange(4)]
    ids = hdlc_gen.IdSource(rng)
    out = bytearray(b"\x7e")
    sent = []
    pool = []
    for k in range(40):  # forty distinct frames, half of them large and half of them tiny (so that the call carries well over 65 536 frames)
        while True:
            fr, d = hdlc_gen.good_frame(rng, ids, max_info=rng.choice((None, None, 300)) if k % 2 else rng.choice((6, 8, 12)), want_info=True)
            if cfg[0] or hdlc_gen.in_plain_domain(fr, cfg[1]):
                break
        pool.append((fr, d, hdlc_gen.on_wire(fr, cfg[0])))
    while len(out) < shard["octets"]:
        if shard.get("large_only"):
            fr, d, wire = pool[2 * rng.randrange(len(pool) // 2) + 1]
        else:
            fr, d, wire = pool[rng.randrange(len(pool)) if len(sent) % 9 == 0 else 2 * rng.randrange(len(pool) // 2)]
        sent.append((fr, d))
        out += wire + b"\x7e" * rng.choice((1, 1, 2))
    stream = bytes(out)
    compare(cfg, stream, ("none",), sent, ctx)
    ctx.case(b"huge" + bytes(cfg) + len(stream).to_bytes(5, "big"), True)
    ctx.count("single_read_calls_of_more_than_4_MiB")
    ctx.maximum("most_frames_completed_by_one_read_call", len(sent))
    ctx.maximum("largest_single_read_call_octets", len(stream))


def make_stream(rng, cfg, ctx=None, max_frames: int = 8, small: bool = False):
    stuffing, abort = cfg
    ids = hdlc_gen.IdSource(rng)
    out = bytearray()
    sent = []
    if rng.random() < 0.35:
        nz, _ = hdlc_gen.noise(rng, rng.randint(1, 40), rng.choice(("flagfree", "esc_end")))
        out += nz.replace(b"\x7e", b"\x7f")
    out += bytes([0x7E]) * rng.choice((1, 1, 2, 3))
    for _ in range(rng.randint(1, max_frames)):
        while True:
            if not small and rng.random() < 0.3:
                fr, d, kind = hdlc_gen.special_frame(rng, ids)
                if ctx is not None:
                    ctx.count(f"special_{kind}")
            else:
                fr, d = hdlc_gen.good_frame(rng, ids, max_info=(8 if small else rng.choice((None, None, 80, 300))),
                                            want_info=(False if small and rng.random() < 0.5 else None))
            if stuffing or hdlc_gen.in_plain_domain(fr, abort):
                break
            if ctx is not None:
                ctx.count("frames_redrawn_outside_domain")
        sent.append((fr, d))
        out += hdlc_gen.on_wire(fr, stuffing)
        out += bytes([0x7E]) * rng.choice((1, 1, 1, 2, 3)) if rng.random() < 0.7 or small else hdlc_gen.fill(rng)
        if rng.random() < 0.12:
            # a meter whose readings do not change sends the very same octets again (1..3 times)
            for _ in range(rng.choice((1, 1, 2, 3))):
                sent.append((fr, d))
                out += hdlc_gen.on_wire(fr, stuffing) + b"\x7e" * rng.choice((1, 1, 2))
            if ctx is not None:
                ctx.count("frames_repeated_identically")
        if not small and rng.random() < 0.1:
            # ... or is a different frame of the same length that a 32-bit digest of the octets cannot tell from this one
            tw = hdlc_gen.digest_twin(rng, d)
            if tw is not None and (stuffing or hdlc_gen.in_plain_domain(tw[0], abort)):
                sent.append(tw)
                out += hdlc_gen.on_wire(tw[0], stuffing) + b"\x7e"
                if ctx is not None:
                    ctx.count("frames_followed_by_their_crc32_twin")
        if not small and rng.random() < 0.25:
            # the next frame starts exactly like this one (same format / length field, same first address octets) but is laid out differently
            sib = hdlc_gen.sibling(rng, d, ids)
            if sib is not None and (stuffing or hdlc_gen.in_plain_domain(sib[0], abort)):
                sent.append(sib)
                out += hdlc_gen.on_wire(sib[0], stuffing) + b"\x7e"
                if ctx is not None:
                    ctx.count("sibling_frames_after_their_look_alike")
    if not small and rng.random() < 0.08:
        # a meter sends frame after frame with the same header layout (one-octet addresses) - then one frame from a station with a
        # four-octet address that reads like a complete header under the old layout
        dst, src = hdlc_ref.address(rng, 1), hdlc_ref.address(rng, 1)
        last = None
        for _ in range(rng.randint(8, 12)):
            info = ids.next() + hdlc_gen.info_bytes(rng, rng.randint(2, 30), False)
            d = {"type": 0xA, "seg": False, "dst": dst, "src": src, "ctrl": rng.randrange(256), "info": info}
            fr = hdlc_ref.build(0xA, False, dst, src, d["ctrl"], info)
            if stuffing or hdlc_gen.in_plain_domain(fr, abort):
                sent.append((fr, d))
                out += hdlc_gen.on_wire(fr, stuffing) + b"\x7e"
                last = d
        mim = hdlc_gen.layout_mimic(rng, last, ids) if last else None
        if mim is not None and (stuffing or hdlc_gen.in_plain_domain(mim[0], abort)):
            sent.append(mim)
            out += hdlc_gen.on_wire(mim[0], stuffing) + b"\x7e"
            if ctx is not None:
                ctx.count("runs_of_one_header_layout_followed_by_a_mimic_frame")
    return bytes(out), sent


def compare(cfg, stream, spec, sent, ctx) -> None:
    chunks = splits.chunks(stream, spec)
    states: set = set()
    frames, exc = hdlc_mon.run(cfg, chunks, states=states)
    for s in states:
        ctx.seen("state_at_chunk_boundary(hunt,pending_escape,partial)", s)
    case = {"cfg": list(cfg), "stream": stream, "split": list(spec), "sent": [f for f, _ in sent]}
    if exc is not None:
        ctx.violation(f"C02:read-raised:{type(exc).__name__}", f"read() raised {exc!r} on a clean stream", case)
        return
    if any(o.get("poison") for o in frames):
        ctx.violation("C02:returned-list-shared-between-calls", "read() handed back an object that the caller had appended to the list returned by an earlier call", case)
        return
    ctx.count("frames_sent", len(sent))
    ctx.count("frames_returned", len(frames))
    if len(frames) != len(sent):
        got = [o["bytes"] for o in frames]
        want = [f for f, _ in sent]
        kind = "lost" if len(frames) < len(sent) else "extra"
        if kind == "extra" and any(got.count(g) > want.count(g) for g in got if g in want):
            kind = "duplicated"
        ctx.violation(f"C02:frame-{kind}", f"sent {len(sent)} frames, reader returned {len(frames)} (split {spec[0]})", case)
        return
    for i, (obs, (fr, d)) in enumerate(zip(frames, sent)):
        if obs["bytes"] != fr:
            ctx.violation("C02:frame-octets-differ", f"frame #{i}: returned {obs['bytes'].hex()[:80]}.., sent {fr.hex()[:80]}..", case)
            return
        if obs["valid"] is not True:
            ctx.violation("C02:wellformed-frame-invalid", f"frame #{i} ({len(fr)} octets) well-formed but is_valid={obs['valid']!r}", case)
        exp = {
            "payload": d["info"], "dst": d["dst"], "src": d["src"], "ctrl": d["ctrl"], "type": d["type"],
            "seg": d["seg"], "length": len(fr),
        }
        for k, want in exp.items():
            got = obs[k]
            if k == "payload":
                got, want = got or b"", want or b""
            if got != want:
                ctx.violation(f"C02:field:{k}", f"frame #{i}: {k}={got!r}, sent {want!r}", case)
        ctx.count(f"addr_len_dst{len(d['dst'])}")
        ctx.count(f"addr_len_src{len(d['src'])}")
        if len(fr) >= 2045:
            ctx.count("frames_at_2045_2047_octets")
        if not d["info"]:
            ctx.count("header_only_frames")


def twin(rng, ctx) -> None:
    """Two reader objects on two clean streams, fed alternately with adversarial call boundaries (one reader's calls end right
    after an escape octet, the other's start with a flag): each must still deliver exactly its own frames."""
    cfgs = [hdlc_gen.CONFIGS[rng.randrange(4)], (rng.random() < 0.5, True)]
    made = [make_stream(rng, c, None, max_frames=6) for c in cfgs]
    streams = [m[0] for m in made]
    styles = []
    chunk_lists = []
    for k, st in enumerate(streams):
        style = rng.choice(("after_7d", "before_flag", "after_flag", "random"))
        styles.append(style)
        if style == "after_7d" and b"\x7d" in st:
            spec = splits.aligned_spec(st, 0x7D, 1, 1)
        elif style == "before_flag":
            spec = splits.aligned_spec(st, 0x7E, 1, 0)
        elif style == "after_flag":
            spec = splits.aligned_spec(st, 0x7E, 1, 1)
        else:
            spec = splits.random_spec(rng, len(st))
        chunk_lists.append(splits.chunks(st, spec))
    readers = [hdlc_mon.new_reader(c) for c in cfgs]
    got = [[], []]
    idx = [0, 0]
    k = 0
    order = []
    while idx[0] < len(chunk_lists[0]) or idx[1] < len(chunk_lists[1]):
        if idx[k] >= len(chunk_lists[k]):
            k = 1 - k
        order.append(k)
        for f in readers[k].read(chunk_lists[k][idx[k]]):
            if f is hdlc_mon.POISON:
                ctx.violation("C02:returned-list-shared-between-calls", "read() handed back an object that a caller had appended to the list returned by an earlier call", {"twin": True, "cfgs": [list(c) for c in cfgs], "chunks": [list(c) for c in chunk_lists], "order": order, "sent": [[fr for fr, _ in m[1]] for m in made]})
                return
            got[k].append((bytes(f.as_bytes), f.is_valid))
        idx[k] += 1
        k = 1 - k if rng.random() < 0.85 else k
    ctx.count("twin_executions")
    for j in range(2):
        want = [(fr, True) for fr, _d in made[j][1]]
        if got[j] != want:
            ctx.violation("C02:instances-share-state", f"reader {j} (cfg {cfgs[j]}, calls cut {styles[j]}): {len(want)} frames sent, {sum(1 for g in got[j] if g[1])} delivered valid when another reader object ({styles[1 - j]}) is used in between",
                          {"twin": True, "cfgs": [list(c) for c in cfgs], "chunks": [list(c) for c in chunk_lists], "order": order, "sent": [[fr for fr, _ in m[1]] for m in made]})


def header_only(cfg, stream, spec, sent, ctx) -> None:
    """A caller that keeps only frame.header of every delivered frame must still read the exact header fields."""
    import gc

    reader = hdlc_mon.new_reader(cfg)
    headers = []
    for ch in splits.chunks(stream, spec):
        headers += [f.header for f in reader.read(ch) if f is not hdlc_mon.POISON]
    gc.collect()
    ctx.count("header_only_executions")
    case = {"cfg": list(cfg), "stream": stream, "split": list(spec), "sent": [f for f, _ in sent], "header_only": True}
    if len(headers) != len(sent):
        return  # the frame list itself is judged by compare()
    for i, (h, (fr, d)) in enumerate(zip(headers, sent)):
        for attr, want in (("destination_address", d["dst"]), ("source_address", d["src"]), ("control", d["ctrl"]), ("frame_length", len(fr)), ("frame_format_type", d["type"]), ("segmentation", d["seg"])):
            try:
                got = getattr(h, attr)
            except Exception as ex:
                ctx.violation(f"C02:field:header-after-frame-dropped:{type(ex).__name__}", f"frame #{i}: header.{attr} raised {ex!r} once the caller no longer held the frame", case)
                return
            if got != want:
                ctx.violation("C02:field:header-after-frame-dropped:value", f"frame #{i}: header.{attr} = {got!r} after the frame was dropped, sent {want!r}", case)
                return


def run(shard: dict, ctx) -> None:
    if shard["kind"] == "fill_sweep":
        return run_fill_sweep(shard, ctx)
    if shard["kind"] == "huge_call":
        return run_huge_call(shard, ctx)
    rng = ctx.rng("c02", shard["kind"])
    if shard["kind"] == "allsplits":
        for i in range(shard["n"]):
            cfg = hdlc_gen.CONFIGS[i % 4]
            while True:
                stream, sent = make_stream(rng, cfg, ctx, max_frames=1, small=True)
                if len(stream) <= 13:
                    break
            n = 0
            for spec in splits.all_cut_sets(len(stream)):
                compare(cfg, stream, tuple(spec), sent, ctx)
                n += 1
            ctx.case(bytes(cfg) + stream, True, n)
            ctx.count("streams_with_all_splittings")
            ctx.count("splittings_enumerated", n)
        return
    for i in range(shard["n"]):
        cfg = hdlc_gen.CONFIGS[rng.randrange(4)]
        stream, sent = make_stream(rng, cfg, ctx, max_frames=8 if i % 20 != 19 else rng.choice((rng.randint(60, 200), rng.randint(400, 700), rng.randint(1100, 1600))),
                                   small=(i % 20 == 19 and i % 40 == 39))
        specs = [("none",), splits.limit_spec(rng, len(stream)), splits.aligned_spec(stream, 0x7E, rng.choice((1, 2, 3)))]
        if len(stream) > 8000:
            specs.append(("single", rng.randint(1, 40)))  # a tiny first call, then everything else in one huge call
        if len(stream) < 6000:
            specs.append(("bytewise",))
        specs += [splits.random_spec(rng, len(stream), False) for _ in range(3)]
        specs.append(splits.structural_spec(stream, rng))  # calls that begin with a flag and end right after an escape octet
        if len(stream) <= 40:
            specs += [("single", c) for c in range(1, len(stream))]
        for spec in specs:
            compare(cfg, stream, spec, sent, ctx)
        if i % 4 == 0 and len(stream) < 5000:
            header_only(cfg, stream, specs[-1], sent, ctx)
        ctx.case(bytes(cfg) + stream, True, len(specs))
        ctx.count(f"streams_cfg{int(cfg[0])}{int(cfg[1])}")
        for _ in range(3):
            twin(rng, ctx)
        if i < 2:
            ctx.sample({"cfg": list(cfg), "stream_len": len(stream), "frames": [f.hex()[:60] for f, _ in sent]})


def replay(case: dict, ctx) -> None:
    from vf.ref import hdlc_ref

    if case.get("header_only"):
        sent = []
        for fr in case["sent"]:
            f = hdlc_ref.parse(fr)
            sent.append((fr, {"info": f.info or b"", "dst": f.destination, "src": f.source, "ctrl": f.control, "type": f.format_type, "seg": f.segmentation}))
        header_only(tuple(case["cfg"]), case["stream"], tuple(case["split"]), sent, ctx)
        return
    if case.get("twin"):
        readers = [hdlc_mon.new_reader(tuple(c)) for c in case["cfgs"]]
        got = [[], []]
        idx = [0, 0]
        for k in case["order"]:
            for f in readers[k].read(case["chunks"][k][idx[k]]):
                if f is not hdlc_mon.POISON:
                    got[k].append((bytes(f.as_bytes), f.is_valid))
            idx[k] += 1
        for j in range(2):
            if got[j] != [(fr, True) for fr in case["sent"][j]]:
                ctx.violation("C02:instances-share-state", f"reader {j} differs when interleaved", case)
        return

    sent = []
    for fr in case["sent"]:
        f = hdlc_ref.parse(fr)
        sent.append((fr, {"info": f.info or b"", "dst": f.destination, "src": f.source, "ctrl": f.control, "type": f.format_type, "seg": f.segmentation}))
    compare(tuple(case["cfg"]), case["stream"], tuple(case["split"]), sent, ctx)


def finalize(agg: dict, tier: str):
    c = agg["counters"]
    reasons = []
    for k in ("streams_cfg00", "streams_cfg01", "streams_cfg10", "streams_cfg11", "frames_at_2045_2047_octets", "header_only_frames",
              "addr_len_dst4", "addr_len_src4", "splittings_enumerated", "fill_run_lengths_swept", "single_read_calls_of_more_than_4_MiB"):
        if c.get(k, 0) == 0:
            reasons.append(f"workload never produced '{k}'")
    return {}, reasons
