"""C19 - Reader memory stays bounded on endless streams.

Resource monitor: deep size (vf/mon/deepsize.py) of the reader instance sampled
between read() calls over MiB-scale streams of the patterns named by the
property; oracle = absolute bound (constant + 3 x chunk) and no upward trend
between the first and the second half of the stream.
"""
from __future__ import annotations

from vf.gen import hdlc_gen, p1_gen, splits
from vf.mon import clock, deepsize, hdlc_mon, p1_mon
from vf.ref import p1_ref

ID = "C19"
LEVEL = "exploration"
HDLC_CONST = 16 * 1024
P1_CONST = 48 * 1024
RULE = (
    "run = (reader, pattern, chunk size): HDLC patterns {all flags, flag + short junk, flag + lone escape, valid frames back to back (two flags / one shared flag), never-ending frame, "
    "frame longer than its length field followed by endless flags, random bytes} under three configurations; P1 patterns {well-formed readouts of 40 KiB, 60 KiB, 90 KiB, ... (each 1.5 x the previous) followed by a never-ending readout, '/' ident lines without '!', '/' + bytes without LF, '////..' and '/abc/abc..' without LF, "
    "ident line + endless data lines, ident line + endless bytes without LF, ever-changing '/' lines, valid readouts back to back, random ASCII, random bytes, text without '/' and LF}; chunk sizes {1 (first 128 KiB), 64, 4096, 65536} and delimiter-aligned calls (ending right after every LF / 7th LF for P1, every flag / 7th flag for HDLC); stream length 1 MiB (quick) / 16 MiB (thorough). "
    f"oracle: deep size after read() <= {HDLC_CONST} (HDLC) / {P1_CONST} (P1) + 3 x chunk bytes at every sample, and max over the second half <= max(1.25 x max over the first half + chunk + 1 KiB, 0.4 x the constant + chunk) (jittered sampling and a floor, so that a bounded saw-tooth or a few spiky long messages are not mistaken for growth). "
    "evaluations = read() calls made; distinct non-trivial = distinct (reader, configuration, pattern, chunk size) runs with >= 16 size samples."
)
ASSUMPTIONS = [
    "deep size = sum of sys.getsizeof over objects reachable via gc.get_referents (types/modules/functions excluded); returned messages are dropped by the caller",
    "'endless' is 16 MiB in the thorough tier; the trend oracle is what extrapolates",
]
WATCHDOG_S = {"quick": 900, "thorough": 7200}

HDLC_PATTERNS = ("all_flags", "flag_short_junk", "flag_lone_escape", "valid_frames", "never_ending_frame", "random_bytes", "overlong_frame_then_flags",
                 "single_flag_between_frames", "escaped_pairs_forever", "escape_fill_forever", "valid_frames_with_segmentation_bit", "tiny_length_header_then_frames", "valid_frames_from_ever_changing_stations", "smallest_valid_frames_back_to_back")
P1_PATTERNS = ("ident_lines_without_end", "slash_without_lf", "ident_then_endless_data", "valid_readouts", "random_ascii", "random_bytes", "text_without_slash_and_lf",
               "slashes_without_lf", "slash_words_without_lf", "ident_then_no_lf", "varying_slash_lines", "growing_valid_readouts_then_endless_data", "ident_then_blank_lines", "ident_then_blank_and_data_lines", "smallest_readouts_some_with_a_wrong_checksum")
QUIESCENT_PATTERNS = ("valid_frames", "single_flag_between_frames", "valid_frames_with_segmentation_bit", "smallest_valid_frames_back_to_back", "valid_frames_from_ever_changing_stations",
                      "valid_readouts", "smallest_readouts_some_with_a_wrong_checksum")
CHUNKS = (1, 64, 4096, 65536, "delim1", "delim7")  # delimN: a call ends right after every N-th LF (P1) / flag (HDLC)


def plan(tier: str, seed: int) -> list[dict]:
    total = (1 << 20) if tier == "quick" else (16 << 20)
    shards = []
    for pat in HDLC_PATTERNS:
        for cfg in ((False, True), (True, False), (False, False)):
            for ch in CHUNKS:
                shards.append({"reader": "hdlc", "cfg": list(cfg), "pattern": pat, "chunk": ch, "total": total if ch != 1 else 128 * 1024})
    for pat in P1_PATTERNS:
        for ch in CHUNKS:
            shards.append({"reader": "p1", "cfg": [0, 0], "pattern": pat, "chunk": ch, "total": total if ch != 1 else 128 * 1024})
    # group small runs so that there are not 76 interpreter starts for quick
    if tier == "quick":
        grouped = [{"runs": shards[i::16]} for i in range(16)]
    else:
        grouped = [{"runs": [s]} for s in shards]
    return grouped


def make_stream(rng, reader: str, cfg, pattern: str, total: int) -> bytes:
    if reader == "hdlc":
        if pattern == "all_flags":
            return b"\x7e" * total
        if pattern == "flag_short_junk":
            unit = b"".join(b"\x7e" + bytes(rng.choice((0x00, 0xA0, 0x7D, 0x21, 0x55)) for _ in range(rng.randint(1, 5))) for _ in range(500))
            return (unit * (total // len(unit) + 1))[:total]
        if pattern == "flag_lone_escape":
            return (b"\x7e\x7d" * (total // 2 + 1))[:total]
        if pattern == "valid_frames":
            ids = hdlc_gen.IdSource(rng)
            unit = b"\x7e" + b"\x7e".join(hdlc_gen.on_wire(hdlc_gen.good_frame(rng, ids, max_info=200)[0], cfg[0]) for _ in range(200)) + b"\x7e"
            return (unit * (total // len(unit) + 1))[:total]
        if pattern == "overlong_frame_then_flags":
            # a frame that is already longer than its length field says, followed by endless flag fill
            return (b"\x7e\xa0\x08\x01\x02\x01\x10" + bytes(rng.randrange(0x80) for _ in range(39)) + b"\x7e" * total)[:total]
        if pattern == "tiny_length_header_then_frames":
            from vf.ref import fcs16 as _f

            ln = rng.choice((1, 2, 3, 4, 5, 6))
            header = bytes((0xA0, ln, 0x03, 0x21, 0x13))
            ids = hdlc_gen.IdSource(rng)
            unit = b"\x7e".join(hdlc_gen.on_wire(hdlc_gen.good_frame(rng, ids, max_info=100, want_info=True)[0], cfg[0]) for _ in range(200)) + b"\x7e"
            return (b"\x7e" + header + _f.trailer(header) + unit * (total // len(unit) + 1))[:total]
        if pattern == "valid_frames_with_segmentation_bit":
            from vf.ref import hdlc_ref as _h

            ids = hdlc_gen.IdSource(rng)
            frames = [_h.build(0xA, True, _h.address(rng, 1), _h.address(rng, 1), rng.randrange(256), ids.next() + rng.randbytes(rng.randint(1, 60))) for _ in range(300)]
            unit = b"\x7e" + b"\x7e".join(hdlc_gen.on_wire(f, cfg[0]) for f in frames) + b"\x7e"
            return (unit * (total // len(unit) + 1))[:total]
        if pattern == "smallest_valid_frames_back_to_back":
            # header-only frames (7 octets) sharing one flag: more than 8 000 complete frames in every 64 KiB call
            from vf.ref import hdlc_ref as _h

            unit = b"".join(hdlc_gen.on_wire(_h.build(0xA, False, _h.address(rng, 1), _h.address(rng, 1), rng.randrange(256), b""), cfg[0]) + b"\x7e" for _ in range(500))
            return (b"\x7e" + unit * (total // len(unit) + 1))[:total]
        if pattern == "valid_frames_from_ever_changing_stations":
            # intact frames of every kind (information, supervisory, unnumbered: any control octet) whose addresses never repeat
            from vf.ref import hdlc_ref as _h

            out = bytearray(b"\x7e")
            k = 0
            while len(out) < total:
                k += 1
                src = bytes((((k >> 21) & 0x7F) << 1, ((k >> 14) & 0x7F) << 1, ((k >> 7) & 0x7F) << 1, ((k & 0x7F) << 1) | 1))
                dst = _h.address(rng, rng.choice((1, 2, 4)))
                fr = _h.build(0xA, False, dst, src, (k * 2) & 0xFE if k % 3 else rng.randrange(256), bytes(rng.randrange(256) for _ in range(rng.randint(1, 12))))
                out += hdlc_gen.on_wire(fr, cfg[0]) + b"\x7e"
            return bytes(out[:total])
        if pattern == "single_flag_between_frames":
            ids = hdlc_gen.IdSource(rng)
            unit = b"".join(b"\x7e" + hdlc_gen.on_wire(hdlc_gen.good_frame(rng, ids, max_info=120, want_info=True)[0], cfg[0]) for _ in range(300))
            return (unit * (total // len(unit) + 1))[:total]
        if pattern == "escaped_pairs_forever":
            return (b"\x7e\xa7\xff\x03\x03\x13" + b"\x7d\x5e" * (total // 2))[:total]
        if pattern == "escape_fill_forever":
            return (b"\x7e\xa7\xff\x03\x03\x13" + b"\x7d" * total)[:total]
        if pattern == "never_ending_frame":
            body = bytes(b if b != 0x7E else 0x7F for b in rng.randbytes(65536))
            return (b"\x7e\xa7\xff\x03\x03\x13" + body * (total // len(body) + 1))[:total]
        return (rng.randbytes(1 << 16) * (total // (1 << 16) + 1))[:total]
    if pattern == "ident_lines_without_end":
        unit = b"".join(p1_ref.strict_ident(rng)[0] + b"\r\n" for _ in range(300))
        return (unit * (total // len(unit) + 1))[:total]
    if pattern == "slash_without_lf":
        body = bytes(rng.randrange(0x20, 0x7F) for _ in range(4096)).replace(b"/", b"x")
        return (b"/" + body * (total // len(body) + 1))[:total]
    if pattern == "slashes_without_lf":
        return b"/" * total
    if pattern == "slash_words_without_lf":
        unit = b"".join(b"/" + bytes(rng.randrange(0x61, 0x7B) for _ in range(rng.randint(1, 9))) for _ in range(500))
        return (unit * (total // len(unit) + 1))[:total]
    if pattern == "ident_then_no_lf":
        body = bytes(rng.randrange(0x20, 0x7F) for _ in range(4096)).replace(b"/", b"x").replace(b"!", b"y")
        return (p1_ref.strict_ident(rng)[0] + b"\r\n" + body * (total // len(body) + 1))[:total]
    if pattern == "varying_slash_lines":
        out = bytearray()
        k = 0
        while len(out) < total:
            k += 1
            out += b"/%d-%s\r\n" % (k, bytes(rng.randrange(0x61, 0x7B) for _ in range(rng.randint(0, 20))))
        return bytes(out[:total])
    if pattern == "growing_valid_readouts_then_endless_data":
        # a history of well-formed, correctly check-summed readouts far beyond the usual size, each half as large again as the one before
        # (whatever a reader learns from them must not lift its bound), then a readout that never ends
        out = bytearray()
        size = 40 * 1024
        while len(out) + size < total * 0.9:
            ident = p1_ref.strict_ident(rng)[0]
            lines = []
            n = 0
            while n < size:
                ln = p1_gen.data_line(rng)
                lines.append(ln)
                n += len(ln) + 2
            out += p1_ref.build_readout(ident, lines)
            size = int(size * 1.5)
        unit = b"".join(p1_gen.data_line(rng) + b"\r\n" for _ in range(400))
        out += p1_ref.strict_ident(rng)[0] + b"\r\n" + unit * ((total - len(out)) // len(unit) + 1)
        return bytes(out[:total])
    if pattern == "smallest_readouts_some_with_a_wrong_checksum":
        # the shortest readouts there are (identification line + end line), every fiftieth with a checksum that does not match
        units = []
        for k in range(400):
            r = p1_ref.build_readout(p1_ref.strict_ident(rng, with_id=False)[0], [], b"\r\n", "correct", False)
            units.append(r if k % 50 else p1_gen.with_checksum_text(r, b"0000" if p1_gen.correct_checksum(r) else b"0001"))
        unit = b"".join(units)
        return (unit * (total // len(unit) + 1))[:total]
    if pattern in ("ident_then_blank_lines", "ident_then_blank_and_data_lines"):
        eol = rng.choice((b"\r\n", b"\n"))
        if pattern == "ident_then_blank_lines":
            unit = eol * 4096
        else:
            unit = b"".join((eol * rng.randint(1, 40)) + p1_gen.data_line(rng) + eol for _ in range(200))
        return (p1_ref.strict_ident(rng)[0] + eol + unit * (total // len(unit) + 1))[:total]
    if pattern == "ident_then_endless_data":
        unit = b"".join(p1_gen.data_line(rng) + b"\r\n" for _ in range(400))
        return (p1_ref.strict_ident(rng)[0] + b"\r\n" + unit * (total // len(unit) + 1))[:total]
    if pattern == "valid_readouts":
        ids = p1_gen.IdSource(rng)
        unit = b"".join(p1_gen.strict_readout(rng, ids) for _ in range(60))
        return (unit * (total // len(unit) + 1))[:total]
    if pattern == "random_ascii":
        unit = bytes(rng.choice(b"/!\r\n()*") if rng.random() < 0.15 else rng.randrange(0x20, 0x7F) for _ in range(1 << 16))
        return (unit * (total // len(unit) + 1))[:total]
    if pattern == "text_without_slash_and_lf":
        unit = bytes(rng.randrange(0x30, 0x7B) for _ in range(4096))
        return (unit * (total // len(unit) + 1))[:total]
    return (rng.randbytes(1 << 16) * (total // (1 << 16) + 1))[:total]


def one_run(spec: dict, ctx) -> None:
    rng = ctx.rng("c19", spec["reader"], spec["pattern"])
    cfg = tuple(bool(x) for x in spec["cfg"])
    reader = hdlc_mon.new_reader(cfg) if spec["reader"] == "hdlc" else p1_mon.new_reader()
    stream = make_stream(rng, spec["reader"], cfg, spec["pattern"], spec["total"])
    chunk = spec["chunk"]
    if isinstance(chunk, str):
        every = int(chunk[5:])
        delim = 0x7E if spec["reader"] == "hdlc" else 0x0A
        pieces = splits.chunks(stream, splits.aligned_spec(stream, delim, every))
        # a stream without the delimiter would be one huge call: fall back to 4096-byte calls for the remainder
        chunks_list = []
        for pc in pieces:
            chunks_list.extend(pc[i : i + 4096] for i in range(0, len(pc), 4096)) if len(pc) > 4096 else chunks_list.append(pc)
        chunk_label = chunk
        chunk = max(len(c) for c in chunks_list)
    else:
        chunks_list = None
        chunk_label = chunk
    n_calls = len(chunks_list) if chunks_list is not None else (len(stream) + chunk - 1) // chunk
    every = max(1, n_calls // 256)
    const = HDLC_CONST if spec["reader"] == "hdlc" else P1_CONST
    bound = const + 3 * chunk
    samples = []
    next_sample = 0
    returned = 0
    case = dict(spec)
    for i in range(n_calls):
        if i % 97 == 0:
            clock.tick()
        try:
            msgs = reader.read(chunks_list[i] if chunks_list is not None else stream[i * chunk : (i + 1) * chunk])
            returned += len(msgs)
            del msgs
        except Exception as ex:
            ctx.count("read_raised(decided by C14)")
            ctx.seen("exceptions(decided by C14)", p1_mon.where(ex))
        if i >= next_sample or i == n_calls - 1:
            size, nobj = deepsize.deep_size(reader)
            samples.append((i, size))
            # jittered sampling: a fixed stride can alias with a saw-tooth (buffer fills to its limit, is dropped, fills again)
            next_sample = i + max(1, rng.randint(every // 2, every + every // 2))
    label = f"{spec['reader']}:{spec['pattern']}"
    worst = max(s for _, s in samples)
    ctx.maximum(f"max_deep_size[{label},chunk={chunk_label}]", worst)
    ctx.count("read_calls", n_calls)
    ctx.count("bytes_fed", len(stream))
    ctx.count("size_samples", len(samples))
    ctx.count("messages_returned", returned)
    ctx.case(f"{label}:{cfg}:{chunk_label}", len(samples) >= 16, n_calls)
    over = [(i, s) for i, s in samples if s > bound]
    if over:
        i, s = over[0]
        ctx.violation(
            f"C19:unbounded:{label}",
            f"deep size {max(s for _, s in over)} bytes > bound {bound} (const {const} + 3 x chunk {chunk}); first exceeded after call {i} ({(i + 1) * chunk} bytes fed) of {n_calls}",
            case,
        )
    # at quiescent points the reader is in the same logical state again and again: for streams of complete messages fed message by
    # message (a call ends right after every delimiter) the size after a call may wobble with the partial message it holds, but its
    # *minimum* over a window must not creep up - one bit per message is a leak too
    if isinstance(chunk_label, str) and spec["pattern"] in QUIESCENT_PATTERNS and len(samples) >= 40:
        tenth = max(4, len(samples) // 10)
        low_first = min(s for _, s in samples[:tenth])
        low_last = min(s for _, s in samples[-tenth:])
        ctx.count("runs_judged_at_quiescent_points")
        if low_last > low_first + 256:
            ctx.violation(f"C19:creeping:{label}", f"smallest deep size over the first tenth of the run {low_first} bytes, over the last tenth {low_last} bytes ({n_calls} calls ending at message boundaries): the reader at rest keeps growing", case)
    half = len(samples) // 2
    first, second = max(s for _, s in samples[:half] or samples), max(s for _, s in samples[half:])
    # (the floor is what one desynchronised maximum-length message may legitimately occupy: frame + raw copy of 2047 octets for HDLC,
    # line buffer + collected readout of 8191 bytes for P1 - both about 0.4 x the constant)
    if second > max(first * 1.25 + chunk + 1024, const * 0.4 + chunk):
        ctx.violation(
            f"C19:growing:{label}",
            f"max deep size over the first half {first} bytes, over the second half {second} bytes (chunk {chunk}) - retained memory grows with the amount of data fed",
            case,
        )
    ctx.sample({"reader": spec["reader"], "cfg": spec["cfg"], "pattern": spec["pattern"], "chunk": chunk, "calls": n_calls, "max_deep_size": worst,
                "size_samples(first,last)": [samples[0], samples[-1]]})


def run(shard: dict, ctx) -> None:
    for spec in shard["runs"]:
        one_run(spec, ctx)


def replay(case: dict, ctx) -> None:
    one_run(case, ctx)


def finalize(agg: dict, tier: str):
    reasons = []
    want = (len(HDLC_PATTERNS) * 3 + len(P1_PATTERNS)) * len(CHUNKS)
    if len(agg["digests"]) < want:
        reasons.append(f"only {len(agg['digests'])} of {want} (reader, pattern, chunk) runs produced >= 16 size samples")
    return {"runs_expected": want}, reasons
