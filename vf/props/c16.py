"""C16 - Readers resynchronise after noise with bounded loss.

Monitor: noise prefix + clean suffix with unique ids; recorder on read();
oracle = every message of the guaranteed set is delivered valid, each clean
message at most once, in order and byte-identical; returned HDLC frames also
pass C01's embedding oracle over the whole stream.
"""
from __future__ import annotations

from vf.gen import hdlc_gen, p1_gen, splits
from vf.mon import hdlc_mon, p1_mon, resync
from vf.ref import hdlc_ref

ID = "C16"
LEVEL = "exploration"
RULE = (
    "case = reader (HDLC x 4 configurations, or P1) + noise prefix (random bytes, frame/readout look-alikes, prefix ending in 7D, truncated messages, "
    "abort sequences, over-long garbage, ident-like lines, bytes >= 0x80) + 2..40 clean messages with unique ids delimited as on a real line "
    "(stuffing-off frames are flag-free and inside C02's domain) x several splittings. guaranteed set: stuffing on / P1 = all but the first clean message; "
    "stuffing off = frames starting more than 2047 + own length octets after the noise. evaluations = executions; distinct non-trivial = distinct "
    "(reader, noise, suffix) digests whose guaranteed set is non-empty."
)
ASSUMPTIONS = [
    "an exception escaping read() is C14's finding: such an execution is counted and not judged here",
    "stuffing-off + abort-on suffix frames stay inside C02's domain (C16 does not re-open what C02 excludes)",
]
WATCHDOG_S = {"quick": 900, "thorough": 7200}
N_CASES = {"quick": 260, "thorough": 6000}


def plan(tier: str, seed: int) -> list[dict]:
    return [{"kind": "gen", "n": N_CASES[tier]} for _ in range(16)]


def hdlc_noise(rng, cfg):
    kind = rng.choice(("random", "dense", "lookalike", "abort", "esc_end", "truncated", "truncated_after_hcs", "overlong", "flag_esc", "none", "open_frame", "idle_line", "length_sweep", "short_then_overlong", "abort_after_header", "long_run"))
    if kind == "long_run":
        # 950..9000 equal octets after a flag / frame start (zeros, even octets, flags, escapes, ...)
        out, _k = hdlc_gen.long_run(rng)
        return out, kind
    if kind == "truncated":
        fr, _ = hdlc_gen.good_frame(rng, None, max_info=80, want_info=True)
        w = hdlc_gen.on_wire(fr, cfg[0])
        out = b"\x7e" + w[: rng.randrange(1, len(w))]
    elif kind == "truncated_after_hcs":
        fr, _ = hdlc_gen.good_frame(rng, None, max_info=80, want_info=True)
        out = b"\x7e" + hdlc_gen.on_wire(hdlc_gen.header_octets(fr), cfg[0])
    elif kind == "overlong":
        out = b"\x7e" + bytes(b if b != 0x7E else 0x7F for b in rng.randbytes(rng.randint(2040, 2600)))
    elif kind == "flag_esc":
        out = rng.randbytes(rng.randint(0, 30)) + rng.choice((b"\x7d", b"\x7e\x7d", b"\x7d\x7e\x7d", b"\x7e\xa0\x7d", b"\x7e\x7d\x7e\x7d"))
    elif kind == "open_frame":
        # start of a frame whose length field promises up to 2047 octets
        ln = rng.choice((2047, 1500, 300, 40))
        out = b"\x7e" + bytes((0xA0 | (ln >> 8), ln & 0xFF)) + hdlc_ref.address(rng, 1) + hdlc_ref.address(rng, 1) + b"\x13" + rng.randbytes(rng.randint(0, 20)).replace(b"\x7e", b"\x00")
    elif kind == "none":
        out = b""
    else:
        out, _ = hdlc_gen.noise(rng, rng.randint(1, 300), kind)
    return out, kind


def p1_noise(rng):
    kind = rng.choice(("random", "struct", "ident_like", "ascii", "high", "bang_tail", "bang_in_ident", "binary_hdlc", "truncated", "overlong_line", "overlong_readout", "ident_then_junk", "none", "idle_line", "truncated_readout_then_short_lines"))
    if kind == "truncated":
        r = p1_gen.strict_readout(rng, None, rng.choice((1, 5, 20)))
        out = r[: rng.randrange(1, len(r))]
    elif kind == "overlong_line":
        out = b"/" + bytes(rng.randrange(0x20, 0x7F) for _ in range(rng.randint(8200, 12000)))
    elif kind == "overlong_readout":
        ident, _, _ = p1_ref_ident(rng)
        out = ident + b"\r\n" + b"".join(b"1-0:1.8.0(%08d*kWh)\r\n" % rng.randrange(10**8) for _ in range(rng.randint(380, 600)))
    elif kind == "ident_then_junk":
        ident, _, _ = p1_ref_ident(rng)
        out = ident + b"\r\n" + p1_gen.noise(rng, rng.randint(1, 200), "ascii")[0]
    elif kind == "none":
        out = b""
    else:
        out, _ = p1_gen.noise(rng, rng.randint(1, 300), kind)
    return out, kind


def p1_ref_ident(rng):
    from vf.ref import p1_ref

    return p1_ref.strict_ident(rng)


def judge_hdlc(cfg, noise: bytes, suffix: bytes, sent, spec, ctx, case) -> bool:
    stream = noise + suffix
    frames, exc = hdlc_mon.run(cfg, splits.chunks(stream, spec))
    if exc is not None:
        # (C14 decides whether read() may raise at all; here it means that the clean frames behind the noise were not delivered)
        ctx.violation(f"C16:hdlc:{'stuffing' if cfg[0] else 'plain'}:read-raised-clean-messages-not-delivered:{p1_mon.where(exc)}", f"cfg {cfg}, noise {case['noise_kind']} ({len(noise)} B), split {spec[0]}: read() raised {exc!r:.120}; {len(sent)} clean frames followed the noise", dict(case, split=list(spec)))
        return True
    returned = [(o["bytes"], bool(o["valid"])) for o in frames]
    req = resync.required_hdlc(cfg, sent)
    for kind, msg in resync.judge_delivery(req, [f for f, _ in sent], returned):
        ctx.violation(f"C16:hdlc:{'stuffing' if cfg[0] else 'plain'}:{kind}", f"cfg {cfg}, noise {case['noise_kind']} ({len(noise)} B), split {spec[0]}: {msg}", dict(case, split=list(spec)))
    # "never corrupts the frame that follows it": a clean frame that is delivered carries the payload and header fields that were sent
    clean = {f for f, _ in sent}
    for o in frames:
        if o["bytes"] in clean and o["valid"]:
            for sig, msg in hdlc_mon.check_frame_exact(o):
                ctx.violation(f"C16:hdlc:{'stuffing' if cfg[0] else 'plain'}:clean-frame-corrupted:{sig.split(':')[-1]}", f"cfg {cfg}, noise {case['noise_kind']} ({len(noise)} B), split {spec[0]}: {msg}", dict(case, split=list(spec)))
                break
            ctx.count("clean_frames_compared_field_by_field")
    octs = [o for o, _ in returned]
    bad = hdlc_ref.embedded_stuffed(stream, octs) if cfg[0] else hdlc_ref.embedded_plain(stream, octs)
    if bad is not None:
        ctx.violation(f"C16:hdlc:{'stuffing' if cfg[0] else 'plain'}:fabricated-frame", f"returned frame #{bad} {octs[bad].hex()[:80]} does not occur in the input", dict(case, split=list(spec)))
    ctx.count("hdlc_required_frames", len(req))
    ctx.count("hdlc_frames_returned_valid", sum(v for _, v in returned))
    return bool(req)


def judge_p1(noise: bytes, suffix: bytes, sent, spec, ctx, case) -> bool:
    stream = noise + suffix
    obs, exc, _ = p1_mon.run(splits.chunks(stream, spec))
    if exc is not None:
        # (C14 decides whether read() may raise at all; here it means that the clean readouts behind the noise were not delivered)
        ctx.violation(f"C16:p1:read-raised-clean-messages-not-delivered:{p1_mon.where(exc)}", f"noise {case['noise_kind']} ({len(noise)} B), split {spec[:2]}: read() raised {exc!r:.120}; {len(sent)} clean readouts followed the noise", dict(case, split=list(spec)))
        return True
    returned = [(o["bytes"], o["valid"] is True) for o in obs]
    if any(o["exceptions"] for o in obs):
        ctx.count("readouts_whose_accessors_raised(decided by C14)")
    req = sent[1:]
    for kind, msg in resync.judge_delivery(req, sent, returned):
        ctx.violation(f"C16:p1:{kind}", f"noise {case['noise_kind']} ({len(noise)} B), split {spec[:2]}: {msg}", dict(case, split=list(spec)))
    ctx.count("p1_required_readouts", len(req))
    ctx.count("p1_readouts_returned_valid", sum(v for _, v in returned))
    return bool(req)


def run_case(reader_kind, cfg, noise, noise_kind, suffix, sent, specs, ctx) -> None:
    case = {"reader": reader_kind, "cfg": list(cfg) if cfg else None, "noise": noise, "noise_kind": noise_kind, "suffix": suffix,
            "sent": [list(s) if isinstance(s, tuple) else s for s in sent]}
    nontrivial = False
    for spec in specs:
        if reader_kind == "hdlc":
            nontrivial |= judge_hdlc(cfg, noise, suffix, sent, spec, ctx, case)
        else:
            nontrivial |= judge_p1(noise, suffix, sent, spec, ctx, case)
    ctx.case(repr((reader_kind, cfg)).encode() + noise + suffix, nontrivial, len(specs))


def run(shard: dict, ctx) -> None:
    rng = ctx.rng("c16")
    for i in range(shard["n"]):
        if rng.random() < 0.7:
            cfg = hdlc_gen.CONFIGS[rng.randrange(4)]
            noise, kind = hdlc_noise(rng, cfg)
            if cfg[0]:
                n, mx = rng.choice((2, 3, 5, 10, 40)), 60
            else:
                n, mx = rng.choice((2, 10, 25, 40, 40)), rng.choice((60, 200, 300))
            suffix, sent = resync.hdlc_suffix(rng, cfg, n, mx)
            if rng.random() < 0.12:
                # the noise is a damaged relative of the meter's own frames: same format / length field and first address octets as the
                # first clean frame, another address length, cut short or with a wrong check sequence
                f0 = hdlc_ref.parse(sent[0][0])
                sib = hdlc_gen.sibling(rng, {"type": f0.format_type, "seg": f0.segmentation, "dst": f0.destination, "src": f0.source, "ctrl": f0.control, "info": f0.info or b""})
                if sib is not None:
                    w = bytearray(sib[0])
                    if rng.random() < 0.5:
                        w = w[: rng.randrange(6, len(w))]
                    else:
                        w[-1] ^= 0x41
                    w = bytes(x if x != 0x7E else 0x7F for x in w) if not cfg[0] else hdlc_gen.on_wire(bytes(w), True)
                    noise, kind = b"\x7e" + w + rng.choice((b"", b"\x7e")), "damaged_sibling_of_the_clean_frames"
            ctx.count(f"hdlc_noise_{kind}")
            ctx.count(f"hdlc_cfg{int(cfg[0])}{int(cfg[1])}")
            reader_kind = "hdlc"
        else:
            cfg = None
            noise, kind = p1_noise(rng)
            suffix, sent = resync.p1_suffix(rng, rng.choice((2, 3, 5, 10, 40)))
            ctx.count(f"p1_noise_{kind}")
            reader_kind = "p1"
        total = len(noise) + len(suffix)
        specs = [("none",), ("single", len(noise)) if 0 < len(noise) < total else ("none",)]
        if total < 5000:
            specs.append(("bytewise",))
        specs += [splits.random_spec(rng, total, False) for _ in range(3)]
        specs.append(splits.structural_spec(noise + suffix, rng))  # calls that begin with a flag and end right after an escape octet
        specs.append(splits.limit_spec(rng, total))
        # cuts near the limits counted from the end of the noise as well
        for lim in (2047, 8192):
            c = len(noise) + lim + rng.randint(-40, 90)
            if 0 < c < total:
                specs.append(("cuts", [c]))
        run_case(reader_kind, cfg, noise, kind, suffix, sent, specs, ctx)
        if i < 2:
            ctx.sample({"reader": reader_kind, "cfg": list(cfg) if cfg else None, "noise_kind": kind, "noise": noise[:80], "n_clean": len(sent)})


def replay(case: dict, ctx) -> None:
    spec = tuple(case["split"])
    if case["reader"] == "hdlc":
        sent = [(bytes(s[0]), s[1]) for s in case["sent"]]
        judge_hdlc(tuple(case["cfg"]), case["noise"], case["suffix"], sent, spec, ctx, case)
    else:
        judge_p1(case["noise"], case["suffix"], case["sent"], spec, ctx, case)


def finalize(agg: dict, tier: str):
    c = agg["counters"]
    reasons = []
    for k in ("hdlc_cfg00", "hdlc_cfg01", "hdlc_cfg10", "hdlc_cfg11", "hdlc_required_frames", "p1_required_readouts", "hdlc_noise_esc_end", "hdlc_noise_abort"):
        if c.get(k, 0) == 0:
            reasons.append(f"workload never produced '{k}'")
    judged = agg["evaluations"] - c.get("executions_not_judged_because_read_raised", 0)
    if judged < agg["evaluations"] * 0.5:
        reasons.append("more than half of the executions could not be judged because read() raised (see C14)")
    return {"executions_judged": judged}, reasons
