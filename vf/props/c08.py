"""C08 - Kaifa lists decode to the transmitted values with the documented scaling.

Same monitor shape as C07: encoder + frozen positional layouts (vf/ref/names.py)
give the expected dictionary; both decoder entry points are compared key by key.
"""
from __future__ import annotations

from vf.gen import dlms_gen
from vf.props import dlms_common

ID = "C08"
LEVEL = "exploration"
RULE = (
    "list = one of the five positional layouts (1, 9, 13, 14, 18 values) or the OBIS-tagged Swedish layout; strings are octet strings of printable ASCII "
    "(lengths 0, 1, 7, 8, 12 [date-time-or-text choice], 16, random); registers over the full u32 range with boundaries; clock element per C10; "
    "frames carry a tagged or untagged APDU date-time (value lists) or null/tagged/untagged (Swedish list). expected: current == reg/1000, voltage == reg/10, "
    "other registers == reg, text verbatim, frame clock = APDU date-time unless the list has a clock. evaluations = lists decoded; "
    "distinct non-trivial = distinct body digests with >= 1 scaled field (layouts 9..18 and SE)."
)
ASSUMPTIONS = ["encoder vf/ref/cosem_enc.py and the frozen layouts in vf/ref/names.py are the specification side"]
WATCHDOG_S = {"quick": 900, "thorough": 7200}
N = {"quick": 600, "thorough": 9500}


def plan(tier, seed):
    return [{"n": N[tier]} for _ in range(16)] + [{"kind": "threads", "rounds": 3 if tier == "quick" else 40}] + [{"n": N[tier] // 2, "python_flags": ["-bb"]}]


def run(shard, ctx):
    if shard.get("index") == 2:
        # the application's ambient decimal context is not the library's business: register/1000 and register/10 do not depend on it
        import decimal

        decimal.setcontext(decimal.Context(prec=4, rounding=decimal.ROUND_DOWN))
        ctx.seen("environment", "ambient decimal context prec=4")
    if shard.get("kind") == "threads":
        dlms_common.digest_twins(ID, "kaifa", ctx)
        for _ in range(shard["rounds"]):
            dlms_common.run_threads(ID, dlms_gen.kaifa_case, ctx)
        return
    rng = ctx.rng(ID)
    for i in range(shard["n"]):
        case = dlms_gen.kaifa_case(rng)
        dlms_common.check_case(ID, case, ctx)
        ctx.case(case.body, case.layout != "1")
        ctx.count(f"layout_{case.layout}")
        for t in set(case.tags):
            ctx.count(f"tag_{t}")
        if i < 2:
            ctx.sample({"layout": case.layout, "body": case.body[:120], "expected_frame": {k: [v[0], str(v[1])[:40]] for k, v in list(case.expect_frame.items())[:8]}})


def replay(case, ctx):
    dlms_common.replay_case(ID, case, ctx)


def finalize(agg, tier):
    c = agg["counters"]
    reasons = [f"workload never produced '{k}'" for k in ("layout_1", "layout_9", "layout_13", "layout_14", "layout_18", "layout_se", "tag_string_of_12",
                                                            "tag_clock_from_list_wins", "tag_clock_from_apdu_tagged", "tag_clock_from_apdu_untagged", "tag_u32:boundary")
               if c.get(k, 0) == 0]
    return {}, reasons
