"""C14 - Readers and messages never raise on line noise, and stay usable.

Monitor: exception recorder at the API boundary - read() of both readers,
is_valid / payload / as_bytes / message_type of every returned message, and
data_received() of both protocol classes with [HDLC, P1] candidates. Every
escaping exception is a violation whose signature is '<type>@<module>.<function>'
of the innermost han frame. After the noise a clean stream is appended and
C16's delivery bound is evaluated on the same reader instance.
"""
from __future__ import annotations

import asyncio

from vf.gen import hdlc_gen, p1_gen, splits
from vf.mon import clock, hdlc_mon, p1_mon, resync, steps
from vf.ref import p1_ref

ID = "C14"
LEVEL = "exploration"
RULE = (
    "input = 1..4 noise pieces (random bytes; structural '/', '!', LF, CR, 7E, 7D dense; ident-like '/AB?5..' lines; bytes >= 0x80 on '/' lines; "
    "'!' + hex / non-hex / non-ASCII tails; '!' inside the ident line; binary HDLC as seen by the P1 reader; corrupted frames and readouts; lines and readouts beyond the 8 KiB guard, inside and outside a readout; homogeneous runs of 950..9000 equal octets after flag / frame-start / '/' prefixes) "
    "x splittings x target {HDLC reader x 4 configs, P1 reader, payload protocol [HDLC,P1], message protocol [HDLC,P1]}, then a clean suffix on the same instance. "
    "evaluations = executions; distinct non-trivial = distinct (target, input) digests on which the P1 reader left hunt mode or returned a readout, "
    "or the HDLC reader opened a frame (observed through is_in_hunt_mode / returned messages)."
)
ASSUMPTIONS = [
    "KeyboardInterrupt/MemoryError-like BaseExceptions are not provoked; 'raise' means any Exception subclass escaping the call",
]
WATCHDOG_S = {"quick": 900, "thorough": 7200}
N_CASES = {"quick": 600, "thorough": 30000}

_loop = None


def _ensure_loop():
    global _loop
    if _loop is None:
        _loop = asyncio.new_event_loop()
        asyncio.set_event_loop(_loop)


def plan(tier: str, seed: int) -> list[dict]:
    return [{"kind": "gen", "n": N_CASES[tier]} for _ in range(16)]


def make_noise(rng) -> tuple[bytes, list[str]]:
    out = bytearray()
    kinds = []
    for _ in range(rng.randint(1, 4)):
        r = rng.random()
        if r < 0.06:
            # over-long lines and readouts (beyond the reader's 8 KiB guard), inside and outside a readout
            ident = p1_ref.strict_ident(rng)[0]
            k = rng.choice(("ident_overlong_line_then_end", "overlong_slash_line", "ident_overlong_readout_then_end", "overlong_line_then_bang"))
            long_line = bytes(rng.randrange(0x20, 0x7F) for _ in range(rng.randint(8200, 9500))).replace(b"/", b"x").replace(b"!", b"y")
            if k == "ident_overlong_line_then_end":
                b = ident + b"\r\n" + long_line + b"\r\n1-0:1.8.0(1*kWh)\r\n!ABCD\r\n"
            elif k == "overlong_slash_line":
                b = b"/" + long_line + b"\r\n!\r\n"
            elif k == "ident_overlong_readout_then_end":
                b = ident + b"\r\n" + b"".join(b"1-0:1.8.0(%08d*kWh)\r\n" % rng.randrange(10**8) for _ in range(rng.randint(380, 450))) + b"!\r\n"
            else:
                b = long_line + b"\r\n!12\r\n"
        elif r < 0.09:
            b, k = hdlc_gen.long_run(rng)
        elif r < 0.14:
            # a line that starts like an identification line, goes on with a run of printable characters (line ends lost: the ident line
            # merged with data lines) and carries one character that no identification may contain
            head = rng.choice((b"/ISk5", b"/KMP5 ", b"/KFM5", b"/ABC9\\2", p1_ref.strict_ident(rng, with_id=False)[0]))
            n = rng.choice((20, 30, 33, 40, 64, 120, 500, 2000))
            cls = rng.choice((b"A", b"0", b" ", b"KA6U0016", b"1-0:1.8.0(0001.5*kWh)", bytes(range(0x20, 0x7F)).replace(b"/", b"").replace(b"!", b"")))
            tail = bytes(cls[i % len(cls)] for i in range(n)) if rng.random() < 0.6 else bytes(rng.choice(cls) for _ in range(n))
            b = head + tail + rng.choice((b"\x00", b"\x80", b"\x1f", b"\x7f", b"\t", b"\xf8", b"")) + rng.choice((b"\r\n", b"\n")) + rng.choice((b"", b"1-0:1.8.0(1*kWh)\r\n!\r\n"))
            k = "long_ident_like_line"
        elif r < 0.6:
            b, k = p1_gen.noise(rng, rng.randint(1, 120))
        elif r < 0.8:
            b, k = hdlc_gen.noise(rng, rng.randint(1, 120))
        elif r < 0.9:
            base = p1_gen.strict_readout(rng, None, rng.choice((0, 1, 4)))
            bb = bytearray(base)
            for _ in range(rng.randint(1, 3)):
                bb[rng.randrange(len(bb))] = rng.choice((0x21, 0x2F, 0x0A, 0x80, 0xFF, rng.randrange(256)))
            b, k = bytes(bb), "mutated_readout"
        else:
            fr, _ = hdlc_gen.good_frame(rng, None, max_info=40)
            bad, _ = hdlc_gen.corrupt(rng, fr)
            b, k = b"\x7e" + bad + b"\x7e", "corrupt_frame"
        out += b
        kinds.append(k)
    return bytes(out), kinds


def _rng_for(noise: bytes):
    import random

    return random.Random(len(noise) * 31 + (noise[0] if noise else 0))


def record(ctx, what: str, ex: BaseException, case: dict) -> None:
    ctx.violation(f"C14:{what}:{p1_mon.where(ex)}", f"{what} raised {ex!r:.200}", case)


def probe_messages(ctx, msgs, case) -> None:
    for m in msgs:
        for attr in ("is_valid", "payload", "as_bytes", "message_type"):
            try:
                getattr(m, attr)
            except Exception as ex:
                record(ctx, f"{type(m).__name__}.{attr}", ex, case)
            ctx.count("message_accessors_probed")


def run_reader(target, cfg, noise, suffix, sent, spec, ctx, case) -> bool:
    """Feed noise+suffix in chunks to one reader. Returns True when the case is non-trivial."""
    reader = hdlc_mon.new_reader(cfg) if target == "hdlc" else p1_mon.new_reader()
    stream = noise + suffix
    returned = []
    raised = False
    left_hunt = False
    fed = 0
    for ch in splits.chunks(stream, spec):
        clock.tick()
        armed = steps.arm(steps.read_budget(len(ch)))
        try:
            msgs = reader.read(ch)
        except steps.CpuBudgetExceeded:
            ctx.violation(f"C14:{type(reader).__name__}.read:did-not-return", f"read() of a {len(ch)}-octet chunk used more than {steps.read_budget(len(ch)):.1f} s of CPU time without returning (about 2 us per octet are normal)", case)
            return True
        except Exception as ex:
            record(ctx, f"{type(reader).__name__}.read", ex, case)
            raised = True
            msgs = []
        finally:
            if armed:
                steps.disarm()
        fed += len(ch)
        if not isinstance(msgs, list):
            ctx.violation("C14:read-returned-non-list", f"read() returned {type(msgs).__name__}", case)
            msgs = list(msgs or [])
        if any(m is hdlc_mon.POISON or m is p1_mon.POISON for m in msgs):
            ctx.violation("C14:returned-list-shared-between-calls", "read() handed back an object that a caller had appended to the list returned by an earlier call", case)
            msgs = [m for m in msgs if m is not hdlc_mon.POISON and m is not p1_mon.POISON]
        probe_messages(ctx, msgs, case)
        if fed <= len(noise) and (msgs or not reader.is_in_hunt_mode):
            left_hunt = True
        for m in msgs:
            try:
                returned.append((bytes(m.as_bytes), m.is_valid is True))
            except Exception:
                raised = True
    if not raised:
        if target == "hdlc":
            req = resync.required_hdlc(cfg, sent)
            sent_octets = [f for f, _ in sent]
        else:
            req, sent_octets = sent[1:], sent
        for kind, msg in resync.judge_delivery(req, sent_octets, returned):
            ctx.violation(f"C14:not-usable-after-noise:{target}:{kind}", msg, case)
        ctx.count("suffix_delivery_judged")
    return left_hunt


_protos = 0


def run_protocol(pclass_name, cfg, noise, suffix, sent_payloads, spec, ctx, case) -> bool:
    from han import meter_connection

    from vf.mon import vloop

    _ensure_loop()
    q: asyncio.Queue = asyncio.Queue()
    cands = [hdlc_mon.new_reader(cfg), p1_mon.new_reader()]
    proto = getattr(meter_connection, pclass_name)(q, cands)
    raised = False
    global _protos
    _protos += 1
    if _protos % 5 == 0:
        # the application gave up waiting for the end of the connection (asyncio.wait_for(protocol.done, t) timed out: the awaitable it
        # was given is cancelled) while the connection itself is still up and delivering
        try:
            proto.done.cancel()
            ctx.count("protocols_whose_done_awaitable_was_cancelled_by_the_application")
        except Exception:
            pass
    # the wall clock the module sees is frozen at one of several calendar dates (month / year ends, leap day, DST switches)
    class _Frozen:
        vtime = 0.0
    saved = meter_connection.datetime
    epoch = vloop.EPOCHS[len(noise) % len(vloop.EPOCHS)]
    meter_connection.datetime = vloop.ClockShim(_Frozen(), epoch)
    ctx.seen("frozen_clock_dates", epoch.date().isoformat())
    try:
        for ch in splits.chunks(noise + suffix, spec):
            clock.tick()
            armed = steps.arm(steps.read_budget(len(ch)) * 2)
            try:
                proto.data_received(ch)
            except steps.CpuBudgetExceeded:
                ctx.violation(f"C14:{pclass_name}.data_received:did-not-return", f"data_received() of a {len(ch)}-octet chunk used more than {2 * steps.read_budget(len(ch)):.1f} s of CPU time without returning", case)
                return True
            except (Exception, asyncio.CancelledError) as ex:
                record(ctx, f"{pclass_name}.data_received", ex, case)
                raised = True
            finally:
                if armed:
                    steps.disarm()
        # the selected reader then sees a long run of complete but invalid messages, and clean ones again
        if len(noise) % 3 == 0:
            try:
                bad = bytearray()
                for _ in range(24):
                    fr, _d = hdlc_gen.good_frame(_rng_for(noise), None, max_info=12, want_info=True)
                    b2 = bytearray(fr)
                    b2[-1] ^= 0x55
                    bad += b"\x7e" + hdlc_gen.on_wire(bytes(b2), cfg[0]) + b"\x7e"
                for ch in (suffix, bytes(bad), suffix, b"/ABC5x\r\n1.8.0(1)\r\n!0000\r\n" * 20, suffix):
                    clock.tick()
                    armed = steps.arm(steps.read_budget(len(ch)) * 2)
                    try:
                        proto.data_received(ch)
                    except steps.CpuBudgetExceeded:
                        ctx.violation(f"C14:{pclass_name}.data_received:did-not-return", f"data_received() of a {len(ch)}-octet chunk used more than {2 * steps.read_budget(len(ch)):.1f} s of CPU time without returning", case)
                        return True
                    except Exception as ex:
                        record(ctx, f"{pclass_name}.data_received", ex, dict(case, after="selection + 24 invalid messages"))
                        raised = True
                    finally:
                        if armed:
                            steps.disarm()
                ctx.count("protocols_fed_long_invalid_runs_after_selection")
            finally:
                pass
    finally:
        meter_connection.datetime = saved
    items = []
    while not q.empty():
        items.append(q.get_nowait())
    if pclass_name == "SmartMeterMessageProtocol":
        probe_messages(ctx, items, case)
    ctx.count("protocol_queue_items", len(items))
    return bool(items) or raised


def run_case(target, cfg, noise, kinds, rng, ctx) -> None:
    if target in ("hdlc", "payload_proto_hdlc", "message_proto_hdlc"):
        suffix, sent = resync.hdlc_suffix(rng, cfg, rng.choice((2, 3, 6)), 40)
    else:
        suffix, sent = resync.p1_suffix(rng, rng.choice((2, 3, 6)))
    total = len(noise) + len(suffix)
    specs = [("none",), ("bytewise",) if total < 3000 else ("fixed", rng.choice((64, 100, 1000, 1024, 4096)), rng.randrange(64)), splits.random_spec(rng, total, False), splits.random_spec(rng, total, False)]
    nontrivial = False
    for spec in specs:
        case = {"target": target, "cfg": list(cfg), "noise": noise, "suffix": suffix, "split": list(spec),
                "sent": [list(s) if isinstance(s, tuple) else s for s in sent]}
        if target in ("hdlc", "p1"):
            nontrivial |= run_reader(target, cfg, noise, suffix, sent, spec, ctx, case)
        else:
            pclass = "SmartMeterMessagePayloadProtocol" if target.startswith("payload") else "SmartMeterMessageProtocol"
            nontrivial |= run_protocol(pclass, cfg, noise, suffix, None, spec, ctx, case)
    ctx.case(target.encode() + bytes(cfg) + noise, nontrivial, len(specs))
    ctx.count(f"target_{target}")
    if nontrivial:
        ctx.count(f"nontrivial_{target}")


TARGETS = ("hdlc", "p1", "p1", "payload_proto_hdlc", "payload_proto_p1", "message_proto_hdlc", "message_proto_p1")


def run(shard: dict, ctx) -> None:
    rng = ctx.rng("c14")
    for i in range(shard["n"]):
        target = rng.choice(TARGETS)
        cfg = hdlc_gen.CONFIGS[rng.randrange(4)]
        noise, kinds = make_noise(rng)
        for k in kinds:
            ctx.count(f"noise_{k}")
        run_case(target, cfg, noise, kinds, rng, ctx)
        if sum(v for k, v in ctx.violation_counts.items() if k.endswith(":did-not-return")) >= 3:
            # every further hit costs a full CPU budget; the verdict of this shard is settled
            ctx.count("shards_stopped_after_three_calls_that_did_not_return")
            return
        if i < 2:
            ctx.sample({"target": target, "cfg": list(cfg), "noise_kinds": kinds, "noise": noise[:100]})


def replay(case: dict, ctx) -> None:
    target, cfg, spec = case["target"], tuple(case["cfg"]), tuple(case["split"])
    if target in ("hdlc", "p1"):
        sent = [(bytes(s[0]), s[1]) for s in case["sent"]] if target == "hdlc" else case["sent"]
        run_reader(target, cfg, case["noise"], case["suffix"], sent, spec, ctx, case)
    else:
        pclass = "SmartMeterMessagePayloadProtocol" if target.startswith("payload") else "SmartMeterMessageProtocol"
        run_protocol(pclass, cfg, case["noise"], case["suffix"], None, spec, ctx, case)


def finalize(agg: dict, tier: str):
    c = agg["counters"]
    reasons = []
    for t in set(TARGETS):
        if c.get(f"nontrivial_{t}", 0) == 0:
            reasons.append(f"no non-trivial input for target {t}")
    if c.get("message_accessors_probed", 0) == 0:
        reasons.append("no message accessor was probed")
    return {}, reasons
