#!/usr/bin/env python3
"""Write selftest/RESULTS.md from the last run_mutants.py outputs."""
import json, os
ROOT = os.path.dirname(os.path.dirname(os.path.abspath(__file__)))
out = ["# Which checks catch which changes (last complete run; quick tier unless stated)", ""]
for kind, title in (("seeded", "Seeded changes from independent sub-agents (seeded/<id>/)"), ("mutants", "Catalogue mutants (selftest/catalogue.py)")):
    p = os.path.join(ROOT, "selftest", f"last_run_{kind}.json")
    if not os.path.exists(p):
        continue
    res = json.load(open(p))
    out += [f"## {title}", "", "| change | repo tests pass with it | caught by | signatures (first 3) |", "|---|---|---|---|"]
    n = c = 0
    for name in sorted(res):
        r = res[name]
        if "checks" not in r:
            out.append(f"| {name} | ? | ERROR {r.get('error','')[:60]} | |"); continue
        n += 1
        caught = r.get("caught_by", [])
        c += bool(caught)
        sigs = [s for v in r["checks"].values() for s in v["signatures"]][:3]
        summary = ""
        mp = os.path.join(ROOT, "seeded", name, "meta.json")
        if os.path.exists(mp):
            summary = json.load(open(mp)).get("summary", "")[:110]
        out.append(f"| {name} {('- ' + summary) if summary else ''} | {r.get('repo_tests_pass_with_patch')} | {', '.join(caught) or '**not caught**'} | {'; '.join(sigs)} |")
    out += ["", f"{c} of {n} caught.", ""]
open(os.path.join(ROOT, "selftest", "RESULTS.md"), "w").write("\n".join(out) + "\n")
print("written")
