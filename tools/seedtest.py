#!/usr/bin/env python3
"""Run the /verif checks against a changed copy of the repository (a seeded fault or a catalogue mutant).

usage: tools/seedtest.py <patch.diff | seeded dir> [--checks C01,C06 | all] [--tier quick] [--demo demo.py] [--keep]

A scratch git worktree of /repo's HEAD is created under /dev/shm (outside /repo and /verif), the patch is
applied there, the repository's own tests and the demonstration are run, then each requested check runs with
VERIF_REPO pointing at the copy (evidence files are not touched). The worktree is removed afterwards.
Prints one JSON line with the outcome.
"""
from __future__ import annotations

import argparse
import json
import os
import re
import shutil
import subprocess
import sys
import tempfile

ROOT = os.path.dirname(os.path.dirname(os.path.abspath(__file__)))
REPO = "/repo"
PY = "/venv/bin/python"
ALL = [f"C{i:02d}" for i in range(1, 21)]


def sh(cmd, cwd=None, env=None, timeout=3600):
    p = subprocess.run(cmd, cwd=cwd, env=env, capture_output=True, text=True, timeout=timeout)
    return p.returncode, p.stdout + p.stderr


def main() -> int:
    ap = argparse.ArgumentParser()
    ap.add_argument("target")
    ap.add_argument("--checks", default=None)
    ap.add_argument("--tier", default="quick")
    ap.add_argument("--demo", default=None)
    ap.add_argument("--seed", default="0")
    ap.add_argument("--skip-tests", action="store_true")
    args = ap.parse_args()
    target = os.path.abspath(args.target)
    if os.path.isdir(target):
        patch = os.path.join(target, "patch.diff")
        demo = args.demo or (os.path.join(target, "demo.py") if os.path.exists(os.path.join(target, "demo.py")) else None)
        meta = {}
        if os.path.exists(os.path.join(target, "meta.json")):
            meta = json.load(open(os.path.join(target, "meta.json")))
        default_checks = [meta.get("property")] if meta.get("property") else ALL
    else:
        patch, demo, default_checks = target, args.demo, ALL
    checks = ALL if args.checks == "all" else (args.checks.split(",") if args.checks else default_checks)
    base = "/dev/shm" if os.path.isdir("/dev/shm") else tempfile.gettempdir()
    wt = tempfile.mkdtemp(prefix="vf-seed-", dir=base)
    os.rmdir(wt)
    out = {"patch": patch, "checks": {}, "applied": False}
    try:
        rc, o = sh(["git", "-C", REPO, "worktree", "add", "--detach", "-q", wt, "HEAD"])
        if rc:
            out["error"] = "worktree: " + o[-300:]
            print(json.dumps(out))
            return 2
        rc, o = sh(["git", "-C", wt, "apply", patch])
        if rc:
            out["error"] = "patch does not apply: " + o[-300:]
            print(json.dumps(out))
            return 2
        out["applied"] = True
        env = dict(os.environ, PYTHONDONTWRITEBYTECODE="1")
        if not args.skip_tests:
            rc, o = sh([PY, "-m", "pytest", "-q", "-p", "no:cacheprovider", "-x"], cwd=wt, env=env)
            out["repo_tests_pass_with_patch"] = rc == 0
            out["repo_tests_tail"] = o.strip().splitlines()[-1] if o.strip() else ""
        if demo:
            rc1, o1 = sh([PY, demo], cwd=wt, env=env, timeout=600)
            rc0, o0 = sh([PY, demo], cwd=REPO, env=env, timeout=600)
            out["demo_fails_with_patch"] = rc1 != 0
            out["demo_passes_without_patch"] = rc0 == 0
        for c in checks:
            env2 = dict(os.environ, VERIF_REPO=wt, VERIF_SEED=args.seed)
            rc, o = sh([os.path.join(ROOT, "check"), c, "--tier", args.tier, "--no-evidence"], cwd=ROOT, env=env2, timeout=4 * 3600)
            sigs = re.findall(r"oracle fired: (\S+?):? ", o)
            sigs = [s.rstrip(":") for s in re.findall(r"oracle fired: (\S+)", o)]
            out["checks"][c] = {"exit": rc, "signatures": sorted(set(sigs))[:12]}
        out["caught_by"] = [c for c, r in out["checks"].items() if r["exit"] == 1]
    finally:
        sh(["git", "-C", REPO, "worktree", "remove", "--force", wt])
        shutil.rmtree(wt, ignore_errors=True)
        sh(["git", "-C", REPO, "worktree", "prune"])
    print(json.dumps(out))
    return 0


if __name__ == "__main__":
    sys.exit(main())
