#!/usr/bin/env python3
"""Write the instructions for one wave of fault-seeding sub-agents: /tmp/wt/prompts<W>/<ID>.txt (one per property), after creating
a scratch worktree /tmp/wt/<ID>f of /repo HEAD and an output directory /tmp/wt/out<W>/<ID> for each.

An agent is given the text of one property, the one-line summaries of the faults earlier agents produced for it (so as not to repeat
them) and its own worktree - nothing from /verif.      usage: tools/mkprompts.py <wave number> [ID ...]
"""
import json
import os
import subprocess
import sys

W = sys.argv[1]
ONLY = sys.argv[2:]
props = {json.loads(l)["id"]: json.loads(l) for l in open("/verif/properties.jsonl") if l.strip()}
T = '''You are helping to stress-test a verification effort by producing realistic, HARD-TO-FIND property-breaking changes ("seeded faults").

Repository under test: a scratch git worktree of the Python library toreamun/amshan at {wt}
(it reads HDLC/DLMS and IEC 62056-21 "P1" smart-meter byte streams, validates FCS/CRC and decodes Aidon/Kaifa/Kamstrup COSEM payloads; sources in {wt}/han, tests in {wt}/tests).
Work ONLY inside {wt} and {out}. Do NOT read, list or write /repo, /verif, other /tmp/wt/* directories or anything else outside those two directories.
Interpreter: /venv/bin/python. A script located outside the worktree would import an installed copy of `han` from elsewhere, so every demo
program MUST start with:  import os, sys; sys.path.insert(0, os.getcwd())   and must be run with the worktree as current directory
(check: cd {wt} && /venv/bin/python -c "import han; print(han.__file__)" prints a path under {wt}). There is no network.

The property that the library is supposed to satisfy ({pid} - {title}):

  STATEMENT: {statement}

  QUANTIFIED OVER: {quant}

Earlier rounds already produced the faults listed below for this property. Do NOT repeat their mechanisms or their trigger conditions; find
genuinely different ones (different function, different kind of state, different kind of input condition):
{earlier}

Your task: produce TWO further source changes to files under {wt}/han, each of which BREAKS this property (a behaviour the STATEMENT rules
out, for an input/history/schedule inside the QUANTIFIED domain, using the library through its public API the way an application would)
while
  (a) the package still imports and
  (b) the existing test-suite still passes unchanged:  cd {wt} && /venv/bin/python -m pytest -q -p no:cacheprovider   (124 tests must pass).
They must look like plausible maintainer work (refactoring, optimisation, caching, tidying, a "robustness" tweak, support for a new meter
variant) and must be HARD TO EXPOSE: the fault should manifest only under a narrow condition that even a careful, protocol-aware randomized
and boundary-value test campaign would very likely miss. Such a campaign typically covers: random and boundary values of every field, every
chunking of a stream, sizes next to powers of two and to the protocol's limits, several objects used alternately, threads, inputs held in
bytes / bytearray / memoryview, pairs of inputs with equal CRC-32, sentinel date-times (epochs, midnight), control characters and NULs in
text, values that look like protocol structure, unusual process environments (python -O, time zones, logging levels, clock jumps, a low
decimal precision, one decoder module imported alone), restart after close, copies / pickles of objects, damaged messages decoded before
good ones, reserved values of every encoded field, coincidences between two fields of one message, every splitting of short streams
into up to three calls, several-MiB calls, byte-identical messages repeated, transports of every address family, late connection_lost.
Pick something else - see also the list of earlier faults above for what has been tried.
{extra}
Avoid faults that show on the first ordinary message. The two changes must differ in mechanism. Do not edit tests.

For each change i in 1..2 write:
  {out}/<i>/patch.diff   - output of `git -C {wt} diff` against HEAD (must apply cleanly with `git apply` on a clean checkout of HEAD)
  {out}/<i>/demo.py      - standalone program, run as  cd {wt} && /venv/bin/python {out}/<i>/demo.py , exits 0 on the UNCHANGED code and
                           non-zero WITH the change applied, printing what went wrong (remember the sys.path line above)
  {out}/<i>/meta.json    - {{"property": "{pid}", "summary": "<one sentence>", "needs_to_manifest": "<the narrow condition>", "why_hard": "<why a strong campaign misses it>", "files": ["han/..."]}}
After recording a change, restore the worktree (git -C {wt} checkout -- .) before the next one. Verify each change yourself (tests pass with
the patch, demo fails with it and passes without). Finish with a clean worktree and reply with a short list (summary + trigger per change).
WORKING STYLE (earlier agents died because one reply exceeded the output limit): never deliberate at length in one reply - a few short
sentences, then a tool call; take the first workable idea instead of listing alternatives; keep every file you write under 100 lines and
your final reply to a few lines per change; write long explanations into meta.json.
'''
EXTRA = os.environ.get("WAVE_EXTRA", "")
os.makedirs(f"/tmp/wt/prompts{W}", exist_ok=True)
for pid, p in props.items():
    if ONLY and pid not in ONLY:
        continue
    wt, out = f"/tmp/wt/{pid}f", f"/tmp/wt/out{W}/{pid}"
    if not os.path.exists(wt):
        subprocess.run(["git", "-C", "/repo", "worktree", "add", "-q", "--detach", wt, "HEAD"], check=True)
    os.makedirs(out, exist_ok=True)
    earlier = []
    for d in sorted(os.listdir("/verif/seeded")):
        if d.startswith(pid + "-"):
            m = json.load(open(f"/verif/seeded/{d}/meta.json"))
            earlier.append(f"  - {m.get('summary', '')[:220]}")
    open(f"/tmp/wt/prompts{W}/{pid}.txt", "w").write(T.format(wt=wt, out=out, pid=pid, title=p["title"], statement=p["statement"], quant=p["quantifier"]["text"], earlier="\n".join(earlier), extra=EXTRA))
print(sorted(os.listdir(f"/tmp/wt/prompts{W}")))
