#!/usr/bin/env python3
"""Confirm sub-agent seeded faults (tests pass with patch, demo fails with / passes without) and keep them as seeded/<id>/."""
import json, os, shutil, subprocess, sys
ROOT = os.path.dirname(os.path.dirname(os.path.abspath(__file__)))
SRC = sys.argv[1] if len(sys.argv) > 1 else "/tmp/wt/out"
TAG = sys.argv[2] if len(sys.argv) > 2 else ""
for prop in sorted(os.listdir(SRC)):
    for i in sorted(os.listdir(os.path.join(SRC, prop))):
        d = os.path.join(SRC, prop, i)
        if not all(os.path.exists(os.path.join(d, f)) for f in ("patch.diff", "demo.py", "meta.json")):
            continue
        dest = os.path.join(ROOT, "seeded", f"{prop}-{TAG}{i}")
        if os.path.exists(dest):
            continue
        p = subprocess.run([os.path.join(ROOT, "tools", "seedtest.py"), d, "--checks", prop], capture_output=True, text=True)
        try:
            r = json.loads(p.stdout.strip().splitlines()[-1])
        except Exception:
            print(prop, i, "seedtest failed", (p.stdout + p.stderr)[-200:]); continue
        ok = r.get("applied") and r.get("repo_tests_pass_with_patch") and r.get("demo_fails_with_patch") and r.get("demo_passes_without_patch")
        print(f"{prop}-{TAG}{i}: confirmed={bool(ok)} caught_by={r.get('caught_by')} exit={ {c: v['exit'] for c, v in r.get('checks', {}).items()} } sig={[v['signatures'][:2] for v in r.get('checks', {}).values()]}", flush=True)
        if not ok:
            print("   not kept:", {k: r.get(k) for k in ("applied", "repo_tests_pass_with_patch", "demo_fails_with_patch", "demo_passes_without_patch", "error")})
            continue
        os.makedirs(dest)
        for f in ("patch.diff", "demo.py"):
            shutil.copy(os.path.join(d, f), dest)
        meta = json.load(open(os.path.join(d, "meta.json")))
        meta["property"] = prop
        meta["confirmed_by"] = "tools/seedtest.py: scratch worktree of /repo HEAD + patch: repository tests pass (124), demo.py exits non-zero; demo.py exits 0 on the unchanged tree"
        meta["quick_check_result"] = {c: v for c, v in r["checks"].items()}
        json.dump(meta, open(os.path.join(dest, "meta.json"), "w"), indent=1)
