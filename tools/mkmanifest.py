#!/usr/bin/env python3
"""Regenerate MANIFEST.json from the table below (keeps the file schema-valid at all times)."""
from __future__ import annotations

import json
import os

ROOT = os.path.dirname(os.path.dirname(os.path.abspath(__file__)))

TRUSTED = ("reference models in vf/ref (bit-serial CRCs, frame/readout/COSEM builders), CPython 3.12, construct 2.10.70; workload generators seeded by VERIF_SEED; "
           "shards rotate through process environments (logging disabled / DEBUG, TZ, per-shard PYTHONHASHSEED); reader monitors re-observe returned messages, "
           "poison returned lists and run twin instances; detection power measured on 140 independently seeded faults + 35 mutants (selftest/RESULTS.md)")

def _c(category, text, note, technique, sec):
    note = note + "; the workload devices added by the strengthening rounds A-H (buffer containers, bystander objects, digest-colliding pairs, environment rotation, size sweeps, ...) are named in the RULE string of evidence/<id>.json and described in DESIGN.md 8.4"
    return dict(category=category, text=text, design_ref=f"DESIGN.md section 4, {sec}; status and devices in section 8", note=note, technique=technique)


CHECKS = {
    "C01": _c("exploration",
              "Every frame HdlcFrameReader.read() returns on generated streams (well-formed, bit-flipped, truncated incl. right after the HCS, over-long, wrong length field with recomputed checks, noise) under all 4 configurations and many splittings is judged by three oracles: two-sided validity vs. a reference (length field + bit-serial FCS), accessor values vs. a reference field split, and embedding of the returned octets in the raw input (in order, use-once, un-stuffed). Sampling of an unbounded input space: 'held on K executions'.",
              "trusts vf/ref/hdlc_ref.py and vf/ref/fcs16.py", "runtime monitoring: boundary recorder + executable reference model + embedding oracle over generated hostile streams", "C01"),
    "C02": _c("exploration",
              "Generator-side record of sent frames (unique ids, addresses of 1-4 octets, 0..2047 octets, flag/escape dense payloads) compared with the list returned over the whole read() call sequence, for many splittings incl. ALL 2^(L-1) splittings of short streams, inside the domain the statement carves out for non-stuffing readers.",
              "trusts the frame builder vf/ref/hdlc_ref.build", "runtime monitoring: exactly-once/in-order delivery check of sent vs. returned frames with unique ids", "C02"),
    "C03": _c("exploration",
              "Every 16-bit register state x every octet of the FCS step function is executed through the public API (thorough: all 2^24, quick: 2^18 + all 2^16 residue states) and compared with a bit-serial RFC 1662 model; random strings/windows/trailers for the two entry points. Exhaustive execution of the finite step domain is as strong as runtime observation gets for this property.",
              "trusts vf/ref/fcs16.py (bit-serial definition, checked against the published vector in setup)", "runtime differential monitoring against a bit-serial reference model; exhaustive execution of the step-function domain", "C03"),
    "C04": _c("exploration",
              "Validity verdicts of DataReadout objects (built from bytes and returned by the reader under splittings) for strict readouts and their variants (checksum text 0000/0001/FFFF/+-1/one bit/random, lower and mixed case, removed; every single-bit flip of small readouts; readouts searched to have a true CRC of 0x0000) against a bit-serial CRC-16/ARC and a liberal ident recogniser (soundness) / strict generator (completeness).",
              "trusts vf/ref/crc16.py and vf/ref/p1_ref.py", "runtime monitoring: validity verdicts vs. reference CRC model over generated and mutated readouts", "C04"),
    "C05": _c("exploration",
              "Streams of 2..400 back-to-back readouts with unique ids (up to ~600 KiB), optional leading readout tail, fed under fixed chunk sizes, random cuts and template-aligned chunk sizes that never put a call boundary between two readouts; returned list must equal sent list.",
              "trusts the readout builder vf/ref/p1_ref.py", "runtime monitoring: exactly-once/in-order delivery check over long call histories", "C05"),
    "C06": _c("exploration",
              "Metamorphic comparison of the real reader with itself: one-call result vs. every other splitting, exhaustively for all streams up to a small length over two reduced alphabets x 4 configurations (with a clean two-frame suffix that makes wrongly carried state visible), plus random flag/escape-dense, uniform and corrupted-frame streams.",
              "no reference model needed; assumes only that None and b'' payloads are the same observation", "runtime metamorphic monitoring (same stream, different chunkings), exhaustive over short streams", "C06"),
    "C07": _c("exploration",
              "Aidon lists encoded by an independent COSEM byte emitter from a Python description (documented layouts and random subsets, registers over the full range of i16/u16/u32 with boundaries, scaler -3..3); expected dictionary from a frozen name table and exact Fraction arithmetic; both decoder entry points compared key by key, frame vs. body agreement.",
              "trusts vf/ref/cosem_enc.py (rebuilds vendor captures byte for byte in setup) and vf/ref/names.py", "runtime differential monitoring of the decoders against an independent encoder + exact arithmetic", "C07"),
    "C08": _c("exploration",
              "Kaifa positional layouts (1/9/13/14/18) and the OBIS-tagged Swedish layout with full-range u32 registers, strings of length 0..30 incl. 12 (date-time-or-text choice), APDU date-time tagged/untagged; expected fields from frozen positional tables, reg/1000 and reg/10 by true division.",
              "trusts vf/ref/cosem_enc.py and the frozen layouts in vf/ref/names.py", "runtime differential monitoring of the decoders against an independent encoder", "C08"),
    "C09": _c("exploration",
              "Kamstrup lists (10-second/hourly/1-/3-phase/Swedish) with 0..9 null octets after any element, CT and non-CT meter types, full-range registers; currents compared within 2^-50 relative of reg/100 (reg/1000 for CT), energy == reg*10, frame clock = APDU date-time.",
              "trusts vf/ref/cosem_enc.py and vf/ref/names.py; current tolerance 2^-50 relative (reg * 10**-2 is one ulp from reg/100)", "runtime differential monitoring of the decoders against an independent encoder", "C09"),
    "C10": _c("exploration",
              "12-octet date-times in each of the 8 syntactic places a decoder accepts one; (status, deviation) pairs enumerated systematically (all 256 status octets; thorough all 256 x 1442 pairs), calendar/time boundaries; decoded value compared field-wise (civil fields, microseconds, utcoffset or none).",
              "trusts vf/ref/cosem_enc.datetime12", "runtime monitoring: field-wise comparison of decoded date-times with the generated ones", "C10"),
    "C11": _c("exploration",
              "P1 data blocks emitted from the IEC 62056-21 grammar by a generator that records every address/value/unit; real parser and the three decode entry points + AutoDecoder compared with the record (exact Fractions); complete sweep of 0.000..999.999 kW (thorough) shows the conversion error is one-sided and below one unit.",
              "trusts vf/ref/p1_ref.py and vf/ref/names.py", "runtime monitoring against the generator's record + exhaustive value sweep of the unit conversion", "C11"),
    "C12": _c("exploration",
              "Model-based differential monitoring of AutoDecoder over ALL histories of length <= 2 (quick) / 3 (thorough) over a ~65-payload pool and random histories to length 30: accept sets and results of the seven individual decoders run in isolation decide what each step may return and what previous_success_decoder may name; genuine generated messages must be decoded by their own decoder with exact values; decode_message == decode_message_payload.",
              "trusts the individual decoder functions as the definition of 'accepts' (their values are C07-C09/C11)", "runtime model-based monitoring of call histories (differential against the individual decoders), exhaustive over short histories", "C12"),
    "C13": _c("exploration",
              "Queue contents after sequences of data_received() calls compared with a model of the selection rule evaluated over shadow readers, and for clean streams with the generator's own list of payloads; 4 candidate lists x both protocol classes x many splittings; a real socketpair transport with recorded delivered chunks.",
              "assumes the readers are deterministic functions of the chunk sequence (their correctness is C01-C06)", "runtime monitoring of the output queue against an executable model of the selection rule", "C13"),
    "C14": _c("exploration",
              "Exception recorder around read(), the four message accessors and data_received() for both readers/protocols on structural-character-biased noise under splittings; afterwards a clean suffix on the same instance must be delivered per C16.",
              "'raise' = any Exception subclass escaping the call", "runtime monitoring: exception recorder at the API boundary under hostile input", "C14"),
    "C15": _c("exploration",
              "Every AutoDecoder call on random bytes, truncations/mutations of genuine messages, FF date-times, unbalanced ASCII fragments and a size sweep, in all 8 remembered-decoder states, runs under (a) an exception monitor, (b) a logical step budget (sys.monitoring PY_START/JUMP/BRANCH <= 50000 + 2000 x len) that decides non-termination without a clock, (c) a tracemalloc bound.",
              "polynomial bound decided as a linear step budget with >50x headroom over genuine messages", "runtime monitoring with a sys.monitoring logical step budget, exception monitor and tracemalloc", "C15"),
    "C16": _c("exploration",
              "Noise prefixes (random, look-alikes, ending in 7D, truncated, abort sequences, over-long garbage, ident-like lines) + 2..40 clean messages with unique ids; the guaranteed set of the statement must be delivered valid, every clean message at most once, in order, byte-identical; returned frames must occur in the input.",
              "an execution in which read() raised is reported here too (the clean messages were not delivered); whether read() may raise at all is C14's question", "runtime monitoring: bounded-loss delivery oracle after injected noise", "C16"),
    "C17": _c("fault_enumeration",
              "On a deterministic virtual-time event loop every outcome word (ok/fail/slow ok/slow fail) up to length 4 (quick) / 5 (thorough) x 2 lifetime modes is run with close() injected at EVERY loop iteration (first/last callback; thorough: every ready-queue position) and at the midpoint of every time gap; a trace checker decides one-connection, no-attempt-while-connected, bounded reconnect progress, task bound (also over 50 and 3000 cycle storms) and the close() guarantees from the recorded event log.",
              "CPython 3.12 BaseEventLoop semantics with a selector that never reports I/O; fake transport delivers connection_lost once via call_soon", "runtime trace checking on a virtual-time event loop with exhaustive close() injection (fault enumeration)", "C17"),
    "C18": _c("fault_enumeration",
              "Strategy object: all 2^14 (quick) / 2^17 (thorough) failure/reset words x 6 max_delay values, every prefix compared with the closed form; manager: all ok/fail words up to length 8/9 x lifetime patterns x configurations on the virtual loop, gaps between failure/loss and next attempt judged from the event log; the wall clock is replaced by the virtual clock and a calibration scenario verifies the substitution.",
              "virtual clock substituted for han.meter_connection.datetime from the harness (calibrated each run)", "runtime trace checking of attempt timing on a virtual clock; exhaustive enumeration of fault words", "C18"),
    "C19": _c("exploration",
              "Deep size of the reader instance sampled between read() calls over 1 MiB (quick) / 16 MiB (thorough) streams of the 13 patterns named by the property x chunk sizes 1..64 KiB; absolute bound (constant + 3 x chunk) and first-half/second-half trend oracle.",
              "deep size = sum of sys.getsizeof over gc-reachable objects from the reader", "runtime resource monitoring (deep-size walker) over long call histories", "C19"),
    "C20": _c("exploration",
              "All 16 presence patterns of the optional groups x boundary/random values in both syntaxes: parse, equality/hash, string comparison, C.D.E string and reduced-form round trip against the groups the generator wrote; mutation grammar for strings without digit.digit -> ValueError only.",
              "syntax per the statement (vf/ref/obis_ref.py)", "runtime monitoring against the generator's record (grammar-based generation)", "C20"),
}

PENDING_REASON = "check not built yet in this session (work in progress; DESIGN.md section 4 describes the planned monitor)"


def main() -> None:
    props = [json.loads(l) for l in open(os.path.join(ROOT, "properties.jsonl")) if l.strip()]
    checks = []
    na = []
    for p in props:
        pid = p["id"]
        c = CHECKS.get(pid)
        if not c or not os.path.exists(os.path.join(ROOT, "vf", "props", pid.lower() + ".py")):
            na.append({"property_id": pid, "reason": PENDING_REASON})
            continue
        checks.append(
            {
                "property_id": pid,
                "quick_cmd": f"./check {pid} --tier quick",
                "thorough_cmd": f"./check {pid} --tier thorough",
                "evidence_file": f"/verif/evidence/{pid}.json",
                "replay_cmd_template": f"./check {pid} --replay {{path}}",
                "engine": "vf",
                "level_claimed": {"category": c["category"], "text": c["text"], "design_ref": c["design_ref"]},
                "level_note": c["note"] + "; " + TRUSTED,
                "technique": c["technique"],
            }
        )
    manifest = {
        "version": 1,
        "setup_cmd": "./setup.sh",
        "hooks": {
            "guard": "AMSHAN_VERIF",
            "enable": "no in-repository hooks are needed: monitors attach from the harness at the public API (recording proxies, reference models, virtual-time event loop); the guard name is reserved and unused by the repository",
            "baseline_off_cmd": "cd /repo && /venv/bin/python -m pytest -ra -q -p no:cacheprovider --timeout=900 --continue-on-collection-errors",
            "source_commits": [],
            "add_only": True,
        },
        "engines": [
            {
                "name": "vf",
                "path": "/verif/vf",
                "serves_properties": [c["property_id"] for c in checks],
                "kind_free_text": "runtime monitoring harness: generated hostile workloads run against the real code in fresh interpreters (16 shards), boundary recorders + executable reference models + metamorphic comparisons + trace checkers on a virtual-time asyncio loop + resource monitors",
            }
        ],
        "checks": checks,
        "notes": "Exit codes: 0 held on everything observed, 1 with a VIOLATION line, 2 inconclusive (no VIOLATION line). Known findings: KNOWN_FINDINGS.txt (14 defects, all repaired by 'fix:' commits in /repo; no open finding). VERIF_SEED / VERIF_TIER / VERIF_REPO / VERIF_JOBS are honoured. DESIGN.md section 8 records what was found, the false alarms of the machinery that were corrected, and which checks catch which seeded changes.",
        "not_applicable": na,
    }
    with open(os.path.join(ROOT, "MANIFEST.json"), "w") as fh:
        json.dump(manifest, fh, indent=1)
        fh.write("\n")
    print(f"MANIFEST.json: {len(checks)} checks, {len(na)} not_applicable")


if __name__ == "__main__":
    main()
