#!/usr/bin/env python3
"""Regenerate MANIFEST.json from the table below (keeps the file schema-valid at all times)."""
from __future__ import annotations

import json
import os

ROOT = os.path.dirname(os.path.dirname(os.path.abspath(__file__)))

TRUSTED = "reference models in vf/ref (bit-serial CRCs, frame/readout/COSEM builders), CPython 3.12, construct 2.10.70; workload generators seeded by VERIF_SEED"

CHECKS = {
    "C03": dict(
        category="exploration",
        text="Every 16-bit register state x every octet of the FCS step function is executed through the public API (thorough: all 2^24, quick: 2^18 + all 2^16 residue states) and compared with a bit-serial RFC 1662 model; random strings/windows/trailers for the two entry points. Exhaustive execution of the finite step domain is as strong as runtime observation gets for this property.",
        design_ref="DESIGN.md section 4, C03",
        note="trusts vf/ref/fcs16.py (bit-serial definition, checked against the published vector in setup)",
        technique="runtime differential monitoring against a bit-serial reference model; exhaustive execution of the step-function domain",
    ),
}

PENDING_REASON = "check not built yet in this session (work in progress; DESIGN.md section 4 describes the planned monitor)"


def main() -> None:
    props = [json.loads(l) for l in open(os.path.join(ROOT, "properties.jsonl")) if l.strip()]
    checks = []
    na = []
    for p in props:
        pid = p["id"]
        c = CHECKS.get(pid)
        if not c or not os.path.exists(os.path.join(ROOT, "vf", "props", pid.lower() + ".py")):
            na.append({"property_id": pid, "reason": PENDING_REASON})
            continue
        checks.append(
            {
                "property_id": pid,
                "quick_cmd": f"./check {pid} --tier quick",
                "thorough_cmd": f"./check {pid} --tier thorough",
                "evidence_file": f"/verif/evidence/{pid}.json",
                "replay_cmd_template": f"./check {pid} --replay {{path}}",
                "engine": "vf",
                "level_claimed": {"category": c["category"], "text": c["text"], "design_ref": c["design_ref"]},
                "level_note": c["note"] + "; " + TRUSTED,
                "technique": c["technique"],
            }
        )
    manifest = {
        "version": 1,
        "setup_cmd": "./setup.sh",
        "hooks": {
            "guard": "AMSHAN_VERIF",
            "enable": "no in-repository hooks are needed: monitors attach from the harness at the public API (recording proxies, reference models, virtual-time event loop); the guard name is reserved and unused by the repository",
            "baseline_off_cmd": "cd /repo && /venv/bin/python -m pytest -ra -q -p no:cacheprovider --timeout=900 --continue-on-collection-errors",
            "source_commits": [],
            "add_only": True,
        },
        "engines": [
            {
                "name": "vf",
                "path": "/verif/vf",
                "serves_properties": [c["property_id"] for c in checks],
                "kind_free_text": "runtime monitoring harness: generated hostile workloads run against the real code in fresh interpreters (16 shards), boundary recorders + executable reference models + metamorphic comparisons + trace checkers on a virtual-time asyncio loop + resource monitors",
            }
        ],
        "checks": checks,
        "notes": "Exit codes: 0 held on everything observed, 1 with a VIOLATION line, 2 inconclusive (no VIOLATION line). Known findings: KNOWN_FINDINGS.txt. VERIF_SEED / VERIF_TIER / VERIF_REPO / VERIF_JOBS are honoured.",
        "not_applicable": na,
    }
    with open(os.path.join(ROOT, "MANIFEST.json"), "w") as fh:
        json.dump(manifest, fh, indent=1)
        fh.write("\n")
    print(f"MANIFEST.json: {len(checks)} checks, {len(na)} not_applicable")


if __name__ == "__main__":
    main()
