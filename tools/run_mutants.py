#!/usr/bin/env python3
"""Run the quick check of the targeted property against every catalogue mutant (and every seeded fault); print a table.

usage: tools/run_mutants.py [--seeded] [--only name1,name2] [--tier quick] [--all-checks]
"""
import argparse, concurrent.futures as cf, json, os, subprocess, sys
ROOT = os.path.dirname(os.path.dirname(os.path.abspath(__file__)))
sys.path.insert(0, ROOT)
from selftest.catalogue import MUTANTS
ap = argparse.ArgumentParser(allow_abbrev=False)
ap.add_argument("--seeded", action="store_true")
ap.add_argument("--only", default=None)
ap.add_argument("--tier", default="quick")
ap.add_argument("--all-checks", action="store_true")
ap.add_argument("--jobs", type=int, default=3)
ap.add_argument("--seed", default="0")
ap.add_argument("--out", default=None)
a = ap.parse_args()
jobs = []
if a.seeded:
    sd = os.path.join(ROOT, "seeded")
    for d in sorted(os.listdir(sd)):
        if os.path.exists(os.path.join(sd, d, "patch.diff")):
            meta = json.load(open(os.path.join(sd, d, "meta.json")))
            jobs.append((d, meta["property"], os.path.join(sd, d)))
else:
    for name, prop, *_ in MUTANTS:
        jobs.append((name, prop, os.path.join(ROOT, "selftest", "mutants", name + ".diff")))
if a.only:
    jobs = [j for j in jobs if j[0] in a.only.split(",")]
def run(job):
    name, prop, target = job
    cmd = [os.path.join(ROOT, "tools", "seedtest.py"), target, "--tier", a.tier, "--seed", a.seed, "--checks", "all" if a.all_checks else prop]
    p = subprocess.run(cmd, capture_output=True, text=True)
    try:
        return name, prop, json.loads(p.stdout.strip().splitlines()[-1])
    except Exception:
        return name, prop, {"error": (p.stdout + p.stderr)[-300:]}
results = {}
with cf.ThreadPoolExecutor(a.jobs) as ex:
    for name, prop, r in ex.map(run, jobs):
        results[name] = r
        if "error" in r:
            print(f"{name:42s} {prop} ERROR {r['error'][:200]}"); continue
        caught = r.get("caught_by", [])
        ex_codes = {c: v["exit"] for c, v in r["checks"].items()}
        sig = r["checks"].get(prop, {}).get("signatures", [])
        print(f"{name:42s} {prop} tests_pass={r.get('repo_tests_pass_with_patch')} demo_ok={r.get('demo_fails_with_patch')}/{r.get('demo_passes_without_patch')} caught_by={caught} exits={ex_codes if not caught else ''} {sig[:3]}", flush=True)
path = a.out or os.path.join(ROOT, "selftest", "last_run_" + ("seeded" if a.seeded else "mutants") + ".json")
merged = {}
if a.only and os.path.exists(path):
    merged = json.load(open(path))
merged.update(results)
json.dump(merged, open(path, "w"), indent=1)
