#!/usr/bin/env python3
"""Turn selftest/catalogue.py into selftest/mutants/<name>.diff (patches against /repo's HEAD)."""
import os, subprocess, sys, tempfile, shutil
ROOT = os.path.dirname(os.path.dirname(os.path.abspath(__file__)))
sys.path.insert(0, ROOT)
from selftest.catalogue import MUTANTS
out = os.path.join(ROOT, "selftest", "mutants")
shutil.rmtree(out, ignore_errors=True)
os.makedirs(out)
wt = tempfile.mkdtemp(prefix="vf-mut-", dir="/dev/shm"); os.rmdir(wt)
subprocess.check_call(["git", "-C", "/repo", "worktree", "add", "--detach", "-q", wt, "HEAD"])
bad = 0
try:
    for name, prop, file, old, new in MUTANTS:
        p = os.path.join(wt, file)
        s = open(p).read()
        if s.count(old) != 1:
            print(f"!! {name}: old text occurs {s.count(old)} times in {file}"); bad += 1; continue
        open(p, "w").write(s.replace(old, new))
        d = subprocess.run(["git", "-C", wt, "diff"], capture_output=True, text=True).stdout
        open(os.path.join(out, f"{name}.diff"), "w").write(d)
        subprocess.check_call(["git", "-C", wt, "checkout", "-q", "--", "."])
finally:
    subprocess.call(["git", "-C", "/repo", "worktree", "remove", "--force", wt])
print(f"{len(MUTANTS) - bad} mutants written to {out}")
sys.exit(1 if bad else 0)
