#!/usr/bin/env python3
"""Print, from evidence/*.json, the anchored library lines that no workload of the property ran (with their source text),
and the lines of han/ that no check at all ran.  Reading aid for widening workloads; decides nothing."""
import glob
import json
import os
import sys

HERE = os.path.dirname(os.path.dirname(os.path.abspath(__file__)))
REPO = os.environ.get("VERIF_REPO", "/repo")


def expand(ranges):
    for r in ranges:
        a, _, b = r.partition("-")
        yield from range(int(a), int(b or a) + 1)


def main():
    per_file_not_run = {}
    for path in sorted(glob.glob(os.path.join(HERE, "evidence", "C*.json"))):
        ev = json.load(open(path))
        rep = ev["coverage"].get("anchored_code_run_under_the_monitors", {})
        print(f"== {ev['property_id']} ({ev['tier']})")
        for f, d in rep.items():
            if "executable_lines" not in d:
                continue
            print(f"   {f}: {d['lines_run_under_the_monitors']}/{d['executable_lines']} lines run")
            src = open(os.path.join(REPO, f)).read().splitlines()
            missing = set(expand(d["lines_not_run"]))
            per_file_not_run.setdefault(f, []).append(missing)
            if "-v" in sys.argv:
                for ln in sorted(missing):
                    print(f"      {ln:4d}: {src[ln - 1].strip()[:110]}")
    print("== lines that none of the checks anchored in the file ran")
    for f, sets in sorted(per_file_not_run.items()):
        never = set.intersection(*sets)
        src = open(os.path.join(REPO, f)).read().splitlines()
        print(f"   {f}: {len(never)}")
        for ln in sorted(never):
            print(f"      {ln:4d}: {src[ln - 1].strip()[:110]}")


if __name__ == "__main__":
    main()
