"""Catalogue of small source mutations ("K" lines of DESIGN.md): realistic regressions each check is aimed at.

Each entry: (name, property it should break, file, old text, new text). tools/mkmutants.py turns them into
selftest/mutants/<name>.diff against /repo's HEAD; tools/run_mutants.py runs the quick checks against each.
"""

MUTANTS = [
    # ---- C01 / C03: validity and FCS
    ("c01_drop_length_test", "C01", "han/hdlc.py", "        if self.is_good_ffc and self.is_expected_length:\n            return True", "        if self.is_good_ffc:\n            return True"),
    ("c03_wrong_residue", "C03", "han/fastframecheck.py", "GOOD_FCS_16 = 0xF0B8", "GOOD_FCS_16 = 0xF0B9"),
    ("c03_table_entry", "C03", "han/fastframecheck.py", "        crc_table.append(crc)\n    return crc_table", "        crc_table.append(crc)\n    crc_table[0xA7] ^= 0x0100\n    return crc_table"),
    ("c03_compute_checksum_window", "C03", "han/fastframecheck.py", "        for i in range(start, start + length):", "        for i in range(start, max(start, start + length - (1 if length > 255 else 0))):"),
    ("c01_payload_off_by_one", "C01", "han/hdlc.py", "            return bytes(self._frame_data[info_position:-2])", "            return bytes(self._frame_data[info_position:-2]) if len(self._frame_data) < 1000 else bytes(self._frame_data[info_position + 1 : -2])"),
    ("c01_address_loop_4_octets", "C02", "han/hdlc.py", "                if (current & 0x01) == 0x01:\n                    return bytes(adr)", "                if (current & 0x01) == 0x01 or len(adr) == 3:\n                    return bytes(adr)"),
    # ---- C02 / C06 / C16: reader state machine
    ("c02_max_len_ge", "C02", "han/hdlc.py", "            and len(self._frame) > HdlcFrame.MAX_FRAME_LENGTH\n        ):", "            and len(self._frame) >= HdlcFrame.MAX_FRAME_LENGTH\n        ):"),
    ("c06_escape_cleared_per_call", "C06", "han/hdlc.py", "        frames_received: list[HdlcFrame] = []\n\n        self._buffer.extend(data_chunk)", "        frames_received: list[HdlcFrame] = []\n        self._unescape_next = False\n\n        self._buffer.extend(data_chunk)"),
    ("c16_escape_survives_flag", "C16", "han/hdlc.py", "        # A flag sequence always ends a pending control escape. It must not be carried over to the next frame.\n        self._unescape_next = False\n", ""),
    ("c06_raw_history_per_call", "C06", "han/hdlc.py", "        frames_received: list[HdlcFrame] = []\n\n        self._buffer.extend(data_chunk)", "        frames_received: list[HdlcFrame] = []\n        self._raw_frame_data.clear()\n\n        self._buffer.extend(data_chunk)"),
    # ---- C04 / C05 / C14: P1 reader
    ("c04_checksum_zero_falsy", "C04", "han/dlde.py", "        if expected_checksum is not None:", "        if expected_checksum:"),
    ("c04_crc_excludes_bang", "C04", "han/dlde.py", "        buf = self._readout[0 : self._end_pos + 1]", "        buf = self._readout[0 : self._end_pos + (1 if self._end_pos % 97 else 0)]"),
    ("c05_trim_only_in_hunt", "C05", "han/dlde.py", "        # Bytes consumed by previous calls are not needed any more.\n        self._buffer.trim_buffer_to_current_position()\n", ""),
    # not a C05 fault (the guard cannot fire on a clean stream once consumed bytes are trimmed) but a C16/C14/C19 one:
    # after an over-long readout the collector stays above the limit and every later call falls back to hunt mode
    ("c16_guard_keeps_collector", "C16", "han/dlde.py", "            self._is_int_hunt_mode = True\n            self._raw_data.clear()\n            self._buffer.trim_buffer_to_flag_or_end()", "            self._is_int_hunt_mode = True\n            self._buffer.trim_buffer_to_flag_or_end()"),
    ("c14_strict_decode", "C14", "han/dlde.py", 'line_str = line.decode("ascii", errors="replace")', 'line_str = line.decode("ascii")'),
    ("c19_guard_ignores_collector", "C19", "han/dlde.py", "        if len(self._buffer) > 8191 or len(self._raw_data) > 8191:", "        if len(self._buffer) > 8191:"),
    ("c19_hdlc_no_trim", "C19", "han/hdlc.py", "        # All buffered data has been consumed. Do not keep it (the buffer would grow without limit during flag fill).\n        self._buffer.trim_buffer_to_current_position()\n", ""),
    # ---- C07-C10: decoders
    ("c08_swap_positions_9", "C08", "han/kaifa.py", "        item_order_list_3_three_phase[:8]\n        + item_order_list_3_three_phase[10:11]", "        item_order_list_3_three_phase[:8]\n        + item_order_list_3_three_phase[11:12]"),
    ("c08_current_scale", "C08", "han/kaifa.py", "    obis_map.FIELD_CURRENT_L3: -3,", "    obis_map.FIELD_CURRENT_L3: -2,"),
    ("c09_ct_dead", "C09", "han/kamstrup.py", 'x.obis == "1.1.96.1.1.255"', 'x.obis == "1.1.96.1.1.256"'),
    ("c09_energy_scaling_dropped", "C09", "han/kamstrup.py", '    "1.1.4.8.0.255": 1,  # R34\n}\n\n_field_scaling_ct_meter', '    "1.1.4.8.0.255": 0,  # R34\n}\n\n_field_scaling_ct_meter'),
    ("c07_sign_lost", "C07", "han/aidon.py", "cosem.CommonDataTypes.long: cosem.Long,", "cosem.CommonDataTypes.long: cosem.LongUnsigned,"),
    ("c10_deviation_sign", "C10", "han/cosem.py", "datetime.timedelta(minutes=ctx.deviation * -1)", "datetime.timedelta(minutes=ctx.deviation)"),
    ("c10_hundredths", "C10", "han/cosem.py", "ctx.hundredths_of_second * 10000", "ctx.hundredths_of_second * 1000"),
    # ---- C11 / C20
    ("c11_two_decimals", "C11", "han/dlde.py", "value = int(float(item.values[0].value) * 1000)", "value = int(round(float(item.values[0].value), 2) * 1000)"),
    ("c11_ceil", "C11", "han/dlde.py", "value = int(float(item.values[0].value) * 1000)", "value = -int(-float(item.values[0].value) * 1000 // 1)"),
    ("c20_reduced_dup", "C20", "han/obis.py", '            obis_code += f"{self._groups[1]}:"', '            obis_code += obis_code + f"{self._groups[1]}:"'),
    ("c20_eq_ignores_f", "C20", "han/obis.py", "        if isinstance(other, Obis):\n            return self._groups == other._groups", "        if isinstance(other, Obis):\n            return self._groups[:5] == other._groups[:5]"),
    # ---- C12 / C13 / C15
    ("c12_rotation_start", "C12", "han/autodecoder.py", "            index = (i + previous_success_index) % len(\n                AutoDecoder.payload_decoder_functions\n            )\n            _, decoder", "            index = (i + previous_success_index + (1 if previous_success_index == 5 else 0)) % len(\n                AutoDecoder.payload_decoder_functions\n            )\n            _, decoder"),
    ("c13_forward_invalid_payload", "C13", "han/meter_connection.py", "        payload = message.payload\n        if message.is_valid:", "        payload = message.payload\n        if message.is_valid or (payload is not None and len(payload) == 3):"),
    ("c15_narrow_except", "C15", "han/autodecoder.py", "            except Exception:  # pylint: disable=broad-except\n                # A decoder given the message of another meter (or junk) can fail in many ways,\n                # not only with ConstructError or ValueError. Any failure means \"not this decoder\".\n                pass\n\n        return None\n\n    def decode_message(", "            except (ValueError, KeyError, IndexError, AttributeError, ArithmeticError, LookupError, __import__('construct').ConstructError):\n                pass\n\n        return None\n\n    def decode_message("),
    # ---- C17 / C18
    ("c17_no_cancel", "C17", "han/meter_connection.py", "                connect_task.cancel()\n                await wait((connect_task,))", "                await wait((connect_task,))"),
    ("c17_leak_closing_task", "C17", "han/meter_connection.py", "                    closing_task2.cancel()\n", ""),
    ("c18_cap_off_by_one", "C18", "han/meter_connection.py", "        return self._delay if self._delay < self.max_delay else self.max_delay", "        return self._delay if self._delay <= self.max_delay * 2 - 1 else self.max_delay"),
    ("c18_no_reset", "C18", "han/meter_connection.py", "                self.back_off_connect_error.reset()\n", "                pass\n"),
]
